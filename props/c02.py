"""C02 -- the automaton recognises exactly the grammar's language, labels included (structural clauses)."""
from vlib import ast as A, prov as P
from vlib import rules_pipeline as RPL
from vlib import rules_tree as T
from . import common

LEVEL = "other"
EXPLANATION = (
    "Decides, from the syntax tree of /repo's current source, the shape-visible necessary conditions of C02: "
    "TR (regex::do_from_expr translates each Expr variant to the RegexNode shape the grammar's meaning requires; end marker last), "
    "TC (every pass between parsing and the automaton descends into every child of every variant), "
    "RP (a rebuilt node keeps every field it does not mean to change), FF (literal text, description, || index, command text and "
    "compadd flag flow Expr -> RegexInput -> Inp unchanged), MPT (from_grammar applies distribute, specialise, resolve, collapse, "
    "propagate in that order to the expression and to every definition), PHASE (unreachable!() arms are discharged). "
    "NOT decided: correctness of nullable/firstpos/lastpos/followpos as set equations, of the subset construction, of interning; "
    "language equivalence for all word sequences."
    " PREC: no parser function that builds a Fallback / Alternative / Sequence node reaches itself through the expression parsers without a bracketed construct in between (`a || b || c` is one group with levels 0, 1, 2). INTERN-EQ field clause shared with C09."
)
ASSUMPTIONS = [
    "rustc accepts the tree (match exhaustiveness, types); the syntax view equals the compiled program for non-macro code",
    "tables/tree.toml: allowed drops and phase discharges confirmed by reading",
]


def flows_table():
    return {
        "check::do_distribute_descriptions": {
            ("Terminal", "descr"): ("the pending description (parameter)", lambda p: p[0] == "param" and p[1] == 2),  # third parameter: `&mut Option<Ustr>` (position, not name)
        },
        "check::do_propagate_fallback_levels": {
            # the level is the third parameter (position, not name)
            ("Terminal", "fallback"): ("the level parameter", lambda p: p[0] == "param" and p[1] == 2),
            ("Subword", "fallback"): ("the level parameter", lambda p: p[0] == "param" and p[1] == 2),
            ("Command", "fallback"): ("the level parameter", lambda p: p[0] == "param" and p[1] == 2),
            ("NontermRef", "fallback"): ("the level parameter", lambda p: p[0] == "param" and p[1] == 2),
        },
    }


def ff_regex_inputs(repo, res, rule="FF"):
    fq = "regex::do_from_expr"
    fn = repo.fn(fq)
    if fn is None:
        res.undecided(rule, f"{rule}:{fq}", "function not found")
        return
    envs = A.collect_envs(fn)
    rows = {
        ("Terminal", "Literal"): {"literal": "term", "description": "descr", "fallback_level": "fallback", "span": "span"},
        ("Subword", "Subword"): {"fallback_level": "fallback", "span": "span"},
        ("NontermRef", "Nonterminal"): {"nonterm": "nonterm", "fallback_level": "fallback", "span": "span"},
        ("Command", "Command"): {"cmd": "cmd", "zsh_compadd": "zsh_compadd", "fallback_level": "fallback", "span": "span"},
    }
    for (v, ctor), fields in rows.items():
        arm, m = RPL.arm_for(repo, fn, "Expr", v)
        if arm is None:
            res.undecided(rule, f"{rule}:{fq}:{v}", "no arm", fn.loc())
            continue
        sites = [s for s in P.ctor_sites(arm["body"], "RegexInput::" + ctor) if s["k"] == "Struct"]
        if len(sites) != 1:
            res.undecided(rule, f"{rule}:{fq}:{v}", f"{len(sites)} RegexInput::{ctor} sites in arm", f"{fn.file}:{arm['l']}")
            continue
        s = sites[0]
        env = envs.get(id(s))
        for dst, srcf in fields.items():
            e = P.ctor_field(s, dst)
            p = A.resolve(e, env) if e is not None else ("none",)
            ok = p[0] == "bind" and P.last(p[1]) == v and p[2] == srcf
            res.check(ok, rule, f"{rule}:{fq}:{ctor}.{dst}", f"RegexInput::{ctor}.{dst} <= {A.show(p)}" + ("" if ok else f"; required Expr::{v}.{srcf}"), f"{fn.file}:{s['l']}")
        if v == "Subword":
            e = P.ctor_field(s, "subword_regex_id")
            p = A.resolve(e, env)
            ok = p[0] == "mcall" and p[1] == "intern" and p[3] and P.peel(p[3][0])[0] == "call" and P.last(P.peel(p[3][0])[1]) == "from_expr" \
                and any(a[0] == "bind" and a[2] == "root_id" for a in P.peel(p[3][0])[2])
            res.check(ok, rule, f"{rule}:{fq}:Subword.subword_regex_id", f"subword_regex_id <= {A.show(p)}", f"{fn.file}:{s['l']}")


def ff_inp_from_input(repo, res, rule="FF"):
    fq = "dfa::Inp::from_input"
    fn = repo.fn(fq)
    if fn is None:
        res.undecided(rule, f"{rule}:{fq}", "function not found")
        return
    envs = A.collect_envs(fn)
    pm = A.parent_map(fn.body)
    rows = {
        ("Literal", "Literal"): {"literal": "literal", "description": "description", "fallback_level": "fallback_level"},
        ("Subword", "Subword"): {"fallback_level": "fallback_level"},
        ("Command", "Command"): {"cmd": "cmd", "fallback_level": "fallback_level"},
        ("Command", "Compadd"): {"cmd": "cmd", "fallback_level": "fallback_level"},
    }
    for (v, ctor), fields in rows.items():
        arm, m = RPL.arm_for(repo, fn, "RegexInput", v)
        if arm is None:
            res.undecided(rule, f"{rule}:{fq}:{v}", "no arm", fn.loc())
            continue
        sites = [s for s in P.ctor_sites(arm["body"], "Self::" + ctor) if s["k"] == "Struct"] + [s for s in P.ctor_sites(arm["body"], "Inp::" + ctor) if s["k"] == "Struct"]
        sites = list({id(s): s for s in sites}.values())
        if len(sites) != 1:
            res.undecided(rule, f"{rule}:{fq}:{v}->{ctor}", f"{len(sites)} Inp::{ctor} sites in the RegexInput::{v} arm", f"{fn.file}:{arm['l']}")
            continue
        s = sites[0]
        env = envs.get(id(s))
        for dst, srcf in fields.items():
            p = A.resolve(P.ctor_field(s, dst), env)
            ok = p[0] == "bind" and P.last(p[1]) == v and p[2] == srcf
            res.check(ok, rule, f"{rule}:{fq}:{ctor}.{dst}", f"Inp::{ctor}.{dst} <= {A.show(p)}" + ("" if ok else f"; required RegexInput::{v}.{srcf}"), f"{fn.file}:{s['l']}")
        if v == "Command":
            # polarity: Compadd under `if zsh_compadd`, Command in its else
            gs = [g for g in A.guards_of(s, pm, stop=arm) if g[0]["k"] == "If"]
            ok = False
            why = "constructor is not under an `if zsh_compadd`"
            if gs:
                iff, role = gs[0]
                c = A.resolve(iff["cond"], envs.get(id(iff)))
                flag = c[0] == "bind" and P.last(c[1]) == "Command" and c[2] == "zsh_compadd"
                want = "then" if ctor == "Compadd" else "else"
                ok = flag and role == want
                why = f"Inp::{ctor} in the `{role}` branch of if {A.show(c)}"
            res.check(ok, rule, f"{rule}:{fq}:{ctor}:polarity", why, f"{fn.file}:{s['l']}")
    # Nonterminal -> Star
    arm, m = RPL.arm_for(repo, fn, "RegexInput", "Nonterminal")
    if arm is not None:
        val, _ = RPL.arm_value(fn, envs, arm, m)
        res.check(val[0] == "path" and val[1].endswith("::Star"), rule, f"{rule}:{fq}:Nonterminal->Star", f"RegexInput::Nonterminal => {A.show(val)}", f"{fn.file}:{arm['l']}")
    else:
        res.undecided(rule, f"{rule}:{fq}:Nonterminal", "no arm", fn.loc())


def fallback_index(repo, res, rule="FF"):
    """|| index: the level passed to child i of a Fallback node is i; every other arm passes its own level on."""
    fq = "check::do_propagate_fallback_levels"
    fn = repo.fn(fq)
    if fn is None:
        res.undecided(rule, f"{rule}:{fq}", "function not found")
        return
    envs = A.collect_envs(fn)
    for m in T.find_enum_matches(repo, fn, "Expr"):
        for arm in m["arms"]:
            vs = [p.split("::")[-1] for p, _ in A.pat_variants(arm["pat"])]
            for c in P.find_calls(arm["body"], names={fn.name}):
                env = envs.get(id(c))
                lvl = A.resolve(c["args"][2], env) if len(c["args"]) > 2 else ("none",)
                for v in vs:
                    key = f"{rule}:{fq}:{v}:level"
                    if v == "Fallback":
                        ok = lvl[0] == "proj" and lvl[2] == 0 and lvl[1][0] == "elem" and lvl[1][2][0] in ("map", "for", "for_each", "filter_map", "flat_map") and \
                            lvl[1][1][0] == "mcall" and lvl[1][1][1] == "enumerate" and \
                            P.has_bind_root("Fallback", "children")(lvl[1][1][2]) and lvl[1][1][2][0] == "mcall" and lvl[1][1][2][1] == "iter"
                        res.check(ok, rule, key, f"child i of a || node gets level {A.show(lvl)}" + ("" if ok else " -- required: its enumerate() index over children.iter()"), f"{fn.file}:{c['l']}")
                    else:
                        ok = lvl[0] == "param" and lvl[1] == 2
                        res.check(ok, rule, key, f"level passed down: {A.show(lvl)}", f"{fn.file}:{c['l']}")
    # entry point starts at level 0
    f2 = repo.fn("check::propagate_fallback_levels")
    if f2 is None:
        # no wrapper: whoever calls the pass from outside starts it at level 0 (a literal, or a constant whose value is 0)
        outside = [(g, c) for g in repo.fns_in("check") if g is not fn for c in P.find_calls(g.body, names={fn.name})]
        okz = bool(outside)
        for g, c in outside:
            a = A.resolve(c["args"][2], A.collect_envs(g).get(id(c))) if len(c["args"]) > 2 else ("none",)
            z = a == ("lit", "0")
            if a[0] == "path":
                k = repo.consts.get("check::" + a[1].split("::")[-1])
                z = k is not None and str(k["expr"].get("v")) == "0"
            okz = okz and z
        res.check(okz, rule, f"{rule}:check::propagate_fallback_levels:start-level", f"{len(outside)} outside call(s) of the pass, each starting at || index 0", fn.loc())
        return
    env2 = A.collect_envs(f2)
    cs = list(P.find_calls(f2.body, names={fn.name}))
    ok = len(cs) == 1 and len(cs[0]["args"]) > 2 and A.resolve(cs[0]["args"][2], env2.get(id(cs[0]))) == ("lit", "0")
    res.check(ok, rule, f"{rule}:check::propagate_fallback_levels:start-level", "top level starts at || index 0", f2.loc())


def levelfield(repo, res, rule="LEVEL"):
    """`the index of the || branch it sits in`: every kind of expected item that carries a level (each Expr variant with a
    `fallback` field: literals, external commands, nonterminal references, within-word expressions) must leave
    do_propagate_fallback_levels with the level of the branch it is visited in.  An arm for such a variant may hand the node back
    unchanged only under a test `its fallback == the level parameter`; otherwise it rebuilds it with `fallback: <level>` (RP flow)."""
    fq = "check::do_propagate_fallback_levels"
    fn = repo.fn(fq)
    if fn is None:
        res.undecided(rule, f"{rule}:{fq}", "function not found")
        return
    envs = A.collect_envs(fn)
    carriers = [v["name"] for v in (repo.enum("Expr") or {}).get("variants", []) if any(str(f.get("name")) == "fallback" for f in v.get("fields", []))]
    res.check(len(carriers) >= 4, rule, f"{rule}:carriers", f"Expr variants with a `fallback` field: {carriers}", "src/parse.rs")
    pm_ = A.parent_map(fn.body)
    # an identity return written in front of the match (`if <level of this leaf> == level { return expr_id }`) is the guarded
    # identity arms written once: it must compare the node's own `fallback` with the level parameter
    for r in A.walk(fn.body):
        if r["k"] == "Return" and r.get("expr") is not None:
            rv = A.resolve(r["expr"], envs.get(id(r["expr"])) or envs.get(id(r)))
            if not (rv[0] == "param" and rv[1] == 1):
                continue
            in_match = any(g[0]["k"] == "Arm" for g in A.guards_of(r, pm_))
            if in_match:
                continue
            okr = False
            for g, role in A.guards_of(r, pm_):
                if g["k"] == "If" and role == "then":
                    for b in A.walk(g["cond"]):
                        if b["k"] == "Binary" and b["op"] == "==":
                            l = A.resolve(b["left"], envs.get(id(b["left"])) or envs.get(id(b)))
                            rr = A.resolve(b["right"], envs.get(id(b["right"])) or envs.get(id(b)))
                            for x, y in ((l, rr), (rr, l)):
                                bx = [t for t in A.roots(x) if t[0] == "bind"]
                                if bx and all(t[2] == "fallback" for t in bx) and any(t[0] == "param" and t[1] == 2 for t in A.roots(y)) and not any(t[0] == "bind" for t in A.roots(y)):
                                    okr = True
            res.check(okr, rule, f"{rule}:{fq}:early-identity", "the node is returned unchanged before the match only when its own level equals the branch's level" if okr else "the node is returned unchanged before the match without comparing its `fallback` with the branch's level", f"{fn.file}:{r['l']}")
    for m in T.find_enum_matches(repo, fn, "Expr"):
        # a match that only reads the node (computes a flag / a field) is not where nodes are rebuilt or handed back
        def _yields_node(arm):
            val = A.resolve(arm["body"], envs.get(id(arm["body"])))
            alts = val[1] if val[0] == "alt" else (val,)
            return any(a[0] == "param" and a[1] == 1 for a in alts) or any(n["k"] == "Struct" and n["path"].startswith("Expr::") for n in A.walk(arm["body"]))
        if not any(_yields_node(a) for a in m["arms"]):
            continue
        for arm in m["arms"]:
            vs = [p.split("::")[-1] for p, _ in A.pat_variants(arm["pat"])]
            for v in vs:
                if v not in carriers:
                    continue
                # does this arm ever return the node unchanged?
                val = A.resolve(arm["body"], envs.get(id(arm["body"])))
                alts = val[1] if val[0] == "alt" else (val,)
                identity = [a for a in alts if a[0] == "param" and a[1] == 1]
                # equality tests `fallback == level` available in the arm: its guard and any if-condition inside it
                conds = []
                if arm.get("guard") is not None:
                    conds.append(arm["guard"])
                for n in A.walk(arm["body"]):
                    if n["k"] == "If":
                        conds.append(n["cond"])
                tested = False
                for c in conds:
                    for b in A.walk(c):
                        if b["k"] == "Binary" and b["op"] == "==":
                            l = A.resolve(b["left"], envs.get(id(b["left"])) or envs.get(id(b)))
                            r = A.resolve(b["right"], envs.get(id(b["right"])) or envs.get(id(b)))
                            for x, y in ((l, r), (r, l)):
                                xs = x[1] if x[0] == "alt" else (x,)  # or-pattern arms bind the same field of each variant
                                if all(t[0] == "bind" and t[2] == "fallback" for t in xs) and any(P.last(t[1]) == v for t in xs) and y[0] == "param" and y[1] == 2:
                                    tested = True
                rebuilt = any(n["k"] == "Struct" and n["path"].split("::")[-1] == v for n in A.walk(arm["body"]))
                ok = (not identity or tested) and (rebuilt or tested)
                res.check(ok, rule, f"{rule}:{fq}:{v}", (f"{v}: " + ("returned unchanged only when its level already equals the branch's level" if identity and tested else "always rebuilt with the branch's level") if ok else
                          f"{v} carries a level but this arm hands the node back without comparing its `fallback` with the branch's level: the item keeps whatever level it had (0 from the parser), so it is offered on the first `||` level whatever branch it is written in"), f"{fn.file}:{arm['l']}")


def postorder(repo, res, rule="TOPO"):
    """Definitions are expanded in the order get_nonterminals_resolution_order returns; resolve_nonterminals substitutes the
    *current* body of a definition, so a definition must come after everything it refers to.  Structurally: in the DFS, and in
    each loop that starts it, a vertex is appended to `result` only after the (recursive) traversal of that vertex returned
    (post-order); the order handed to the expansion loop is that `result`."""
    f = repo.fn("check::traverse_nonterminal_dependencies_dfs")
    g = repo.fn("check::get_nonterminals_resolution_order")
    if f is None or g is None:
        res.undecided(rule, f"{rule}:check::traverse_nonterminal_dependencies_dfs", "function not found")
        return
    n = 0
    # a start-up helper extracted from the seeding loops (push the root on the path, run the DFS, append the root) is read like
    # the loops it came from: wrappers = functions of the module, other than the two, that call the DFS
    wrappers = [w for w in repo.fns_in("check") if w is not f and w is not g and list(P.find_calls(w.body, names={f.name}))]
    ridx = next((i for i, prm in enumerate(f.params) if "Vec<Ustr>" in "".join((prm.get("ty") or "").split())), None)
    for fn in [f, g] + wrappers:
        pm = A.parent_map(fn.body)
        calls = list(P.find_calls(fn.body, names={f.name}))
        if not calls:
            via = [w for w in wrappers if list(P.find_calls(fn.body, names={w.name}))]
            if via:
                n += 1
                res.ok(rule, f"{rule}:{fn.qname}:via-helper", f"the traversal is started through {[w.qname for w in via]}, checked as a start-up site of its own", fn.loc())
                continue
            res.undecided(rule, f"{rule}:{fn.qname}", f"no call of {f.name}")
            continue
        for i, c in enumerate(calls):
            # the result vector is whatever this call passes for the DFS's `&mut Vec<Ustr>` parameter
            rname = "result"
            if ridx is not None and ridx < len(c["args"]):
                rname = "".join(repo.text(fn.file, c["args"][ridx]).split()).replace("&mut", "").lstrip("*&")
            # the pushes onto the result vector in the same block as this call
            blk = None
            cur = A.stmt_of(c, pm)
            if cur is not None and id(cur) in pm:
                blk = pm[id(cur)][0]
            pushes = []
            if blk is not None and blk["k"] == "Block":
                for st in blk["stmts"]:
                    for m in P.find_calls(st, methods={"push"}):
                        r = m["recv"]
                        while r["k"] in ("Ref", "Unary"):
                            r = r["expr"]
                        if r["k"] == "Path" and r["path"] == rname:
                            pushes.append(m)
            n += 1
            ok = len(pushes) == 1 and A.before(c, pushes[0])
            res.check(ok, rule, f"{rule}:{fn.qname}:push-after-traversal#{i + 1}", (f"result.push follows the traversal of that vertex (post-order): dependencies precede their users" if ok else
                      f"{len(pushes)} result.push in the block of the traversal call" + ("; it PRECEDES the call: pre-order puts a definition before the definitions it uses, which are then expanded too late" if pushes and not A.before(c, pushes[0]) else "")), f"{fn.file}:{c['l']}")
    res.floor(rule, n, 2)  # the recursive call in the DFS + at least one seeding site (two today; one when the seeding loops are merged)
    # the expansion loop in from_grammar iterates exactly this order
    fg = repo.fn("check::ValidGrammar::from_grammar")
    if fg is not None:
        envs = A.collect_envs(fg)
        ok = False
        for lp in A.walk(fg.body):
            if lp["k"] == "ForLoop" and list(P.find_calls(lp["body"], names={"resolve_nonterminals"})):
                it = A.show(A.resolve(lp["iter"], envs.get(id(lp))))
                if "get_nonterminals_resolution_order" in it:
                    ok = ".rev()" not in it and "sort" not in it
                    res.check(ok, rule, f"{rule}:check::ValidGrammar::from_grammar:expansion-order", f"definitions are expanded in the order {it[:90]}", f"{fg.file}:{lp['l']}")
        if not ok:
            res.check(False, rule, f"{rule}:check::ValidGrammar::from_grammar:expansion-order-found", "no loop that expands definitions over get_nonterminals_resolution_order's result was found", fg.loc())


def arena_immut(repo, res, tier, rule="ARENA-IMMUT"):
    from vlib import mir as M, rules_arena as RA
    from . import c10

    mir = M.get_mir(tier)
    reach = mir.reachable(["main::main"])
    hits, n = RA.scan(mir, reach)
    for fnp, callee, ty, f, line in hits:
        res.bad(rule, f"{rule}:{fnp}:{callee.split('::')[-1]}", f"{fnp} takes a mutable reference into an arena ({callee} on {ty}): nodes are shared between all references of an expanded nonterminal, an in-place edit changes every occurrence at once", fnp)
    res.ok(rule, f"{rule}:scan", f"{n} mutable-element calls on slices/vectors reachable from main ({len(reach)} functions): {len(hits)} on an Expr / RegexNode arena", "")
    res.engines["M"] = {"functions": len(mir.fns), "reachable_from_main": len(reach)}
    cm, err = c10.control_facts()
    if cm is None:
        res.undecided("CONTROL", "CONTROL:arena-immut", "control crate did not compile under the driver: " + err[-200:])
    else:
        ch, _ = RA.scan(cm, cm.reachable(["main::main"]))
        res.check(len(ch) >= 2, "CONTROL", "CONTROL:arena-immut", f"control: {len(ch)} in-place arena edits flagged ({sorted(set(c.split('::')[-1] for _, c, *_ in ch))})", "")


def descr_scope(repo, res, rule="DESCRSCOPE"):
    """`( a | b ) "d"` labels the literals INSIDE the group and nothing after it: in do_distribute_descriptions the group's description
    travels down in a slot of its own (`&mut Some(descr)` built in the DistributiveDescription arm), never in the slot the caller passed
    in; and the only thing ever stored into the caller's slot is `None` (a description is spent, never planted).  Otherwise what the group
    does not use up is still pending when the enclosing sequence goes on, and lands on the next literal."""
    fq = "check::do_distribute_descriptions"
    fn = repo.fn(fq)
    if fn is None:
        res.undecided(rule, f"{rule}:{fq}", "function not found")
        return
    envs = A.collect_envs(fn)
    slot = next((i for i, prm in enumerate(fn.params) if "Option<Ustr>" in "".join((prm.get("ty") or "").split()) and "mut" in (prm.get("ty") or "")), None)
    if slot is None:
        res.undecided(rule, f"{rule}:{fq}:slot", "no `&mut Option<Ustr>` parameter", fn.loc())
        return
    arm, m = RPL.arm_for(repo, fn, "Expr", "DistributiveDescription")
    ok, why = False, "no DistributiveDescription arm"
    if arm is not None:
        calls = list(P.find_calls(arm["body"], names={fn.name}))
        ok = bool(calls)
        why = f"{len(calls)} recursive call(s) in the arm"
        for c in calls:
            a = A.resolve(c["args"][slot], envs.get(id(c))) if slot < len(c["args"]) else ("none",)
            while a[0] in ("ref", "deref"):
                a = a[1]
            fresh = a[0] == "call" and P.last(a[1]) == "Some" and a[2] and a[2][0][0] == "bind" and P.last(a[2][0][1]) == "DistributiveDescription" and a[2][0][2] == "descr"
            ok = ok and fresh
            why = f"the group's description goes down as {A.show(a)[:70]}" + ("" if fresh else ": not a slot of its own (`&mut Some(descr)`) -- what the group leaves unused stays pending for what follows the group")
    res.check(ok, rule, f"{rule}:{fq}:group-has-its-own-slot", why, f"{fn.file}:{arm['l']}" if arm else fn.loc())
    pname = fn.params[slot]["name"]
    planted = []
    for asg in A.walk(fn.body):
        if asg["k"] == "Assign":
            l = asg["left"]
            while l["k"] in ("Unary", "Paren"):
                l = l["expr"]
            if l["k"] == "Path" and l["path"] == pname:
                r = asg["right"]
                if not (r["k"] == "Path" and r["path"].split("::")[-1] == "None"):
                    planted.append(asg["l"])
    res.check(not planted, rule, f"{rule}:{fq}:caller-slot-only-spent", "the caller's pending description is only ever cleared" if not planted else f"a description is stored INTO the caller's slot at line(s) {planted}", fn.loc())


def nullscan(repo, res, rule="NULLSCAN"):
    """Dragon book 3.9: firstpos / lastpos / followpos of a concatenation scan the children and stop at the first child that is NOT
    nullable -- the child whose positions were just taken.  Relational form: in every loop of the position-set functions that
    leaves through `break` under `!X.nullable(..)`, X is the very node whose firstpos / lastpos (or recursive visit) the same loop
    body takes; testing another node's nullability (the left neighbour's, the parent's) cuts the scan at the wrong child."""
    n = 0
    for q in ("regex::do_firstpos", "regex::do_lastpos", "regex::do_followpos"):
        fn = repo.fn(q)
        if fn is None:
            res.undecided(rule, f"{rule}:{q}", "function not found")
            continue
        envs = A.collect_envs(fn)
        pm = A.parent_map(fn.body)
        for loop in A.walk(fn.body):
            if loop["k"] not in ("ForLoop", "While", "Loop"):
                continue
            brs = []
            for b in A.walk(loop["body"]):
                if b["k"] != "Break":
                    continue
                gs = A.guards_of(b, pm, stop=loop)
                if any(g[0]["k"] in ("ForLoop", "While", "Loop") for g in gs):
                    continue  # belongs to an inner loop
                brs.append((b, gs))
            for b, gs in brs:
                nul = None
                for g, role in gs:
                    if g["k"] == "If":
                        for x in A.walk(g["cond"]):
                            if x["k"] == "MethodCall" and x["method"] == "nullable":
                                nul = (x, g, role)
                if nul is None:
                    continue
                x, g, role = nul
                c = g["cond"]
                negated = c["k"] == "Unary" and c.get("op") == "!"
                tested = A.resolve(x["recv"], envs.get(id(x)))
                takers = []
                for y in A.walk(loop["body"]):
                    if y["k"] == "MethodCall" and y["method"] in ("firstpos", "lastpos"):
                        takers.append(A.resolve(y["recv"], envs.get(id(y))))
                    elif y["k"] == "Call" and y["func"]["k"] == "Path" and y["func"]["path"].split("::")[-1] == fn.name and y["args"]:
                        takers.append(A.resolve(y["args"][0], envs.get(id(y))))
                strip = lambda p: p[1] if p and p[0] in ("ref", "deref") else p
                same = [t for t in takers if strip(t) == strip(tested)]
                n += 1
                ok = negated and role == "then" and bool(same)
                res.check(ok, rule, f"{rule}:{q}:scan#{n}", f"scan leaves at the first non-nullable child: break under {'!' if negated else ''}{A.show(tested)[:70]}.nullable(); positions taken in the same pass from {[A.show(t)[:50] for t in takers][:3]}" + ("" if ok else " -- the node tested for nullability is not the node whose positions are taken (or the test is not negated)"), f"{fn.file}:{b['l']}")
    return n


C02_CORES = {"dfa::dfa_from_regex", "regex::do_firstpos", "regex::do_lastpos", "regex::do_followpos", "regex::RegexNode::nullable"}


def core_skips(repo, res):
    """SKIPS over the Glushkov position sets and the subset construction: their loop exits, skipped elements and guarded updates
    are the rows confirmed by reading against Dragon book 3.9 (tables/skips.toml)."""
    from vlib import rules_skips as SK, tables

    n = SK.skips_rule(repo, res, tables.load("skips")["row"], only=C02_CORES)
    res.floor("SKIPS", n, 5)


def prec_rule(repo, res, rule="PREC"):
    """`a || b || c` is ONE fallback group with levels 0, 1, 2 (and `a | b | c` one alternative, `a b c` one sequence): the parser
    function that builds an n-ary node collects its operands in a loop and parses each operand one level further down.  Structurally:
    no function that builds a Fallback / Alternative / Sequence node can reach itself through the expression parsers without passing
    a bracketed construct (`( .. )`, `[ .. ]`), which starts again from the top.  An operand parsed by the function itself (`a || <the
    whole rest>`) nests the groups instead, and the levels of `b` and `c` start again from 0."""
    fns = {f.name: f for f in repo.fns_in("parse") if "ExprId" in "".join((f.node.get("ret") or "").split()) and any("Vec<Expr>" in "".join((p_.get("ty") or "").split()) for p_ in f.params) and any("Span<" in "".join((p_.get("ty") or "").split()) for p_ in f.params)}
    if len(fns) < 5:
        res.undecided(rule, f"{rule}:parse", f"only {len(fns)} expression parsers found")
        return
    calls = {}
    for name, f in fns.items():
        fenvs = A.collect_envs(f)
        is_local = lambda x: (fenvs.get(id(x)) is not None and fenvs.get(id(x)).get(x["path"]) is not None)
        calls[name] = {x["func"]["path"].split("::")[-1] for x in A.walk(f.body) if x["k"] == "Call" and x["func"]["k"] == "Path" and x["func"]["path"].split("::")[-1] in fns and x["func"]["path"].split("::")[-1] != name and not is_local(x["func"])} \
            | {x["path"].split("::")[-1] for x in A.walk(f.body) if x["k"] == "Path" and x["path"].split("::")[-1] in fns and x["path"].split("::")[-1] != name and not is_local(x)}
        if any(x["k"] == "Call" and x["func"]["k"] == "Path" and x["func"]["path"].split("::")[-1] == name for x in A.walk(f.body)):
            calls[name].add(name)
    bracketed = {name for name, f in fns.items() if any(x["k"] == "Call" and x["func"]["k"] == "Path" and x["func"]["path"].split("::")[-1] == "char" and x["args"] and x["args"][0].get("k") == "Lit" and str(x["args"][0].get("v")) in "([{" and str(x["args"][0].get("v")) for x in A.walk(f.body))}
    builders = {}
    for name, f in fns.items():
        vs = [v for v in ("Fallback", "Alternative", "Sequence") if list(P.ctor_sites(f.body, "Expr::" + v))]
        if vs:
            builders[name] = vs
    res.check(len(builders) >= 3 and bool(bracketed), rule, f"{rule}:parse:found", f"n-ary node builders {sorted(builders)}; bracketed constructs parsed by {sorted(bracketed)}", "src/parse.rs")
    for name, vs in sorted(builders.items()):
        seen, todo = set(), list(calls[name])
        while todo:
            g = todo.pop()
            if g in seen:
                continue
            seen.add(g)
            if g in bracketed:
                continue
            todo.extend(calls.get(g, ()))
        ok = name not in seen
        res.check(ok, rule, f"{rule}:parse::{name}", f"builds {vs}: operands are parsed by {sorted(calls[name])}, none of which comes back here except through brackets" if ok else
                  f"builds {vs} and is reachable from its own operand parsers {sorted(calls[name])} without a bracket in between: `a OP b OP c` nests as `a OP (b OP c)` instead of one group", fns[name].loc())


def run(repo, res, tier):
    prec_rule(repo, res)
    # two within-word automata are one automaton only if every part, also the accepting states, agrees (INTERN-EQ, shared with C09)
    from . import c09 as _c09
    _c09.intern_eq(repo, res, identity=False)
    from vlib import rules_fieldcover as FC
    FC.fieldcover(repo, res, "dfa::Inp::get_fallback_level", "Inp", "fallback_level", "value")  # the `||` index of every kind of item is visible to the table builders
    levelfield(repo, res)
    core_skips(repo, res)
    res.floor("NULLSCAN", nullscan(repo, res), 2)
    descr_scope(repo, res)
    arena_immut(repo, res, tier)
    postorder(repo, res)
    n_tc = common.run_traversals(repo, res, flows=flows_table())
    res.floor("TC", res.count("TC"), 51)
    res.floor("RP", res.count("RP"), 52)
    common.discover_traversals(repo, res)
    RPL.tr_check(repo, res)
    res.floor("TR", res.count("TR"), 6)
    RPL.phase_check(repo, res)
    ff_regex_inputs(repo, res)
    ff_inp_from_input(repo, res)
    fallback_index(repo, res)
    res.floor("FF", res.count("FF"), 17)
    # the labels of the automaton for a shell come from the definition chosen for that shell (shared with C11)
    from . import c11
    c11.lookup_rule(repo, res)
    RPL.from_grammar_order(repo, res)
    # Regex::from_valid_grammar compiles the validated expression in the validated arena
    fq = "regex::Regex::from_valid_grammar"
    fn = repo.fn(fq)
    if fn is None:
        res.undecided("MPT", f"MPT:{fq}", "function not found")
    else:
        envs = A.collect_envs(fn)
        cs = list(P.find_calls(fn.body, names={"from_expr"}))
        ok = False
        why = f"{len(cs)} from_expr calls"
        if len(cs) == 1:
            a = [A.resolve(x, envs.get(id(cs[0]))) for x in cs[0]["args"]]
            ok = len(a) >= 2 and a[0][0] == "field" and a[0][2] == "expr" and a[0][1][0] == "param" and a[1][0] == "field" and a[1][2] == "arena" and a[1][1] == a[0][1]
            why = f"from_expr({', '.join(A.show(x) for x in a)})"
        res.check(ok, "MPT", f"MPT:{fq}:compiles-validated-expr", why, fn.loc())
