_get_comp_words_by_ref() { words=("${COMP_WORDS[@]}"); cword=$COMP_CWORD; }
source "$1"; shift
COMP_WORDS=("$@"); COMP_CWORD=$((${#COMP_WORDS[@]}-1)); COMPREPLY=()
_cmd; echo "rc=$? reply=(${COMPREPLY[*]})"
