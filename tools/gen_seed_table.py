#!/usr/bin/env python3
"""Writes seeded/RESULTS.md from selftest/seeded_results.json (+ each seed's meta.json): which check reports which seeded defect."""
import json, os, glob
V = os.path.dirname(os.path.dirname(os.path.abspath(__file__)))
r = json.load(open(os.path.join(V, "selftest", "seeded_results.json")))
out = ["# Seeded defects and the checks that report them", "",
       "Each seed was written by a sub-agent that saw only one property's text and a scratch worktree (nothing from /verif), and was",
       "re-confirmed by `selftest/confirm_seed.sh` (demo passes on the pristine tree; with the patch: builds, 59/59 tests pass, demo fails).",
       "Columns `own check` / `other checks`: `selftest/seeded.py run --props all --jobs=N` (patch applied to a scratch copy of /repo's working",
       "tree, every registered quick check run against it).  Column `official`: `selftest/seeded.py run --props own --official` -- the patch",
       "applied to /repo itself with `git -C /repo apply`, the registered quick check of the seed's own property run exactly as registered,",
       "`git -C /repo checkout -- .` afterwards (selftest/seeded_results_official.json).  Table by `tools/gen_seed_table.py`.", "",
       "| seed | breaks | change | needs, to manifest | own check | official | first key of the own check | other checks that fire |", "|---|---|---|---|---|---|---|---|"]
off = {}
try:
    off = json.load(open(os.path.join(V, "selftest", "seeded_results_official.json")))
except Exception:
    pass
n = own = anyc = 0
for sid in sorted(r):
    v = r[sid]
    if "error" in v:
        out.append(f"| {sid} | | patch no longer applies to the repaired tree | | | | | |")
        continue
    meta = json.load(open(os.path.join(V, "seeded", sid, "meta.json")))
    fired = v["fired"]
    o = v["property"]
    n += 1
    own += 1 if o in fired else 0
    anyc += 1 if fired else 0
    key = (fired.get(o) or [""])[0]
    key = key.split(" key=")[-1][:80] if key else ""
    esc = lambda s: str(s).replace("|", "/").replace("\n", " ")
    out.append(f"| {sid} | {o} | {esc(meta.get('summary',''))[:160]} | {esc(meta.get('needs_to_manifest',''))[:120]} | {'fires' if o in fired else 'silent'} | {('fires' if off.get(sid, {}).get('caught_by_own_check') else 'silent') if sid in off else '-'} | `{esc(key)}` | {' '.join(p for p in fired if p != o)} |")
out.insert(next(i for i, l in enumerate(out) if l.startswith('| seed |')), f"**{n} seeds evaluated: {own} reported by the check of the property they were written against, {anyc} reported by at least one check.**\n")
open(os.path.join(V, "seeded", "RESULTS.md"), "w").write("\n".join(out) + "\n")
print(n, own, anyc)
