#!/usr/bin/env python3
"""Prints tables/skips.toml rows for the current /repo (used once to draft the table; every row was then compared with the source by
hand and given its reason -- the checker never regenerates the table)."""
import sys, os
sys.path.insert(0, os.path.dirname(os.path.dirname(os.path.abspath(__file__))))
from vlib import core, rules_skips as SK

WHY = {
    ("check::ValidGrammar::from_grammar", "skip", "shell.is_some()"): "duplicate-definition check concerns plain definitions; shell-specific ones are checked per shell in get_specializations",
    ("check::ValidGrammar::from_grammar", "retain", "make_builtin_specializations"): "a plain definition of PATH/DIRECTORY overrides the builtin (C11): not a validation skip",
    ("check::ValidGrammar::from_grammar", "skip", ".used"): "unused-specialization warning set = specializations never marked used (C15)",
    ("check::do_check_subword_spaces", "return-ok", ".get("): "a reference to a nonterminal without a plain definition has nothing to descend into (undefined / specialised / builtin: a single word)",
    ("check::get_nonterminals_resolution_order", "return-ok", "is_empty()"): "no plain definitions at all: nothing can be cyclic and nothing needs expanding",
    ("check::get_nonterminals_resolution_order", "retain", "contains_key"): "edges only to nonterminals that have a plain definition (others are leaves)",
    ("check::get_nonterminals_resolution_order", "skip", ".contains(elem"): "second seeding loop: vertices already visited by an earlier DFS are complete",
    ("check::get_nonterminals_resolution_order", "retain", "unwrap_or(True)"): "definitions without references need no expansion; dropping them from the order changes nothing",
    ("check::get_not_depended_on_nonterminals", "skip", "!= '0'"): "roots = vertices with in-degree 0",
    ("check::traverse_nonterminal_dependencies_dfs", "skip", ".contains(elem[param<UstrMap>"): "vertex finished earlier: tested AFTER the on-current-path test, so a back edge is still an error",
    ("dfa::DFA::do_check_ambiguity_best_effort", "dedup_by_key", ""): "identical (literal, description) pairs are one expectation",
    ("dfa::DFA::do_check_ambiguity_best_effort", "skip", ".0 != "): "neighbours in literal order: different literals cannot conflict",
    ("dfa::DFA::do_check_ambiguity_best_effort", "skip", ".1 == "): "same literal, same description (None == None included): no conflict",
    ("dfa::DFA::do_check_ambiguity_best_effort", "skip", "!is<Inp::Star>"): "only a placeholder transition can make a state ambiguous: literals are compared exactly, commands produce candidates and match nothing by themselves, within-word automata were checked when they were compiled",
    ("dfa::DFA::do_check_ambiguity_best_effort", "skip", "!is<Inp::Literal>"): "descriptions are attached to literals only: the conflicting-description list is built from the literal transitions of the state",
    ("regex::Regex::check_subwords", "skip", "!is<RegexInput::Subword>"): "only a within-word expression has a within-word regex to check",
    ("parse::Grammar::get_specializations", "continue^0", ":Some(("): "first pass looks at shell-specific definitions only",
    ("parse::Grammar::get_specializations", "skip", "!= param<Shell>"): "definitions for other shells do not take part (their shell name and right-hand side were validated just before)",
    ("parse::Grammar::get_specializations", "continue^0", ":None"): "second pass looks at plain definitions only",
    ("parse::Grammar::get_specializations", "skip", "lhs_name)"): "a plain definition matters here only if the same name is specialised for some shell",
    ("regex::Regex::check_subwords", "skip", "#3>.contains("): "each within-word regex is checked once",
    ("regex::Regex::check_subwords", "skip", "endmarker_position"): "the end marker is not an input",
    ("regex::Regex::check_subwords", "skip", "#2>.contains(elem[param<RoaringBitmap#1>])"): "position already visited",
    ("regex::Regex::check_subwords", "continue^0", ".get("): "position without followers (only the end marker): nothing to descend into",
    ("regex::Regex::do_check_ambiguous_inputs_tail_only_subword", "skip", "endmarker_position"): "the end marker is not an input: reaching it after a placeholder is exactly the allowed `last item of the word` case",
    ("regex::Regex::do_check_ambiguous_inputs_tail_only_subword", "skip", "#2>.contains(elem[param<RoaringBitmap#1>])"): "position already visited on this walk",
    ("regex::Regex::do_check_ambiguous_inputs_tail_only_subword", "continue^0", ".get("): "position without followers",
    # ---- table printers (C04; bash ones also C01 / C12 / C17)
    ("bash::write_completion_script", "return-ok", "!= elem"): "chunk_by closure: different shape hashes are never grouped (isomorphic_to decides the rest, ISOCOV)",
    ("fish::write_completion_script", "return-ok", "!= elem"): "chunk_by closure: different shape hashes are never grouped (isomorphic_to decides the rest, ISOCOV)",
    ("zsh::write_completion_script", "return-ok", "!= elem"): "chunk_by closure: different shape hashes are never grouped (isomorphic_to decides the rest, ISOCOV)",
    ("pwsh::write_completion_script", "return-ok", "!= elem"): "chunk_by closure: different shape hashes are never grouped (isomorphic_to decides the rest, ISOCOV)",
    ("bash::write_completion_script", "skip", "get_subword_transitions_from"): "a state without within-word transitions gets no row; the reader tests the row with -v before use",
    ("fish::write_completion_script", "skip", "get_subword_transitions_from"): "a state without within-word transitions gets no row; the reader tests the row before use",
    ("zsh::write_completion_script", "skip", "get_subword_transitions_from"): "a state without within-word transitions gets no row; the reader tests the row with -v before use",
    ("fish::write_literals", "skip", "is_empty()"): "only non-empty descriptions enter the description set",
    ("fish::write_literals", "skip", "is_empty()"): "the dummy 0th element (fish arrays start at 1) is not printed",
    ("fish::write_literals", "skip", "> '0'"): "literals without a description (index 0 = dummy) get no description id",
    ("fish::write_matching_tables", "continue^0", "param#1.literal.get("): "states without literal transitions leave their slot of the positional fish list empty (the list is indexed by state)",
    ("pwsh::write_literals", "skip", "is_empty()"): "only literals that have a description get a row in $descriptions (keyed by literal id)",
    ("zsh::write_literals", "skip", "is_empty()"): "only non-empty descriptions enter the description set",
    ("zsh::write_literals", "skip", "is_empty()"): "defensive: the set holds no empty description",
    # ---- algorithmic cores (C03 / C02)
    ("dfa::DFA::make_transitions_image", "skip", ".inputs.ids()])"): "dead-state completion adds a transition only for (state, input) pairs that have none",
    ("dfa::DFA::make_transitions_image", "dedup", "()"): "sorted image: duplicates (none are produced) would be harmless to drop",
    ("dfa::do_minimize", "continue^0", "find_bounds("): "no transition enters the splitter block: it splits nothing",
    ("dfa::do_minimize", "skip", "is_disjoint"): "only blocks that meet the preimage can be split by it",
    ("dfa::do_minimize", "skip", "difference().is_empty()"): "block entirely inside the preimage: not split",
    ("dfa::do_minimize", "break^0", "== elem["): "the splitter block itself was just split: the list of overlapping blocks computed for this symbol is stale for it; the remaining symbols of this splitter are still processed (the break leaves the inner loop only)",
    ("dfa::eliminate_nonaccepting_states_without_output_transitions", "skip", "param<RoaringBitmap>.contains(elem[param<[Transition]>"): "keep a transition iff its target is accepting or has a way out",
    ("dfa::find_bounds", "return-ok", "Err(_) => None"): "binary search found no transition into [min, max]: empty window",
    ("dfa::keep_only_states_with_input_transitions", "skip", "== param<StateId>) ||"): "accepting states kept iff reachable (start state or some transition enters them)",
    ("dfa::keep_only_states_with_input_transitions", "skip", "<lit>"): "closure value of the transition filter (the two early returns below decide)",
    ("dfa::keep_only_states_with_input_transitions", "return-ok", "=> true"): "transitions leaving the start state are always kept",
    ("dfa::keep_only_states_with_input_transitions", "return-ok", "=> false"): "a transition whose source or target has no incoming transition is dropped",
    ("regex::do_firstpos", "break^0", "nullable"): "firstpos(Cat): stop after the first non-nullable factor",
    ("regex::do_followpos", "break^0", "nullable"): "followpos(Cat): lastpos(c_i) is followed by firstpos of the following factors up to the first non-nullable one",
    ("regex::do_lastpos", "break^0", "nullable"): "lastpos(Cat): from the end, stop after the first non-nullable factor",
}

repo = core.get_repo()
vs = SK.validators(repo, extra=SK.EXTRA_VALIDATORS)
seen = set()
print("# Exemptions, detection predicates and descents of the validators, confirmed by reading (see vlib/rules_skips.py).\n# key = structural rendering of the guarding condition; never a line number.\n")
for q, f in sorted(vs.items()):
    for kind, key, line in SK.exemptions(repo, f):
        if (q, kind, key) in seen:
            continue
        seen.add((q, kind, key))
        why = None
        if kind.startswith("detect:"):
            why = f"detection predicate of {kind.split(':')[1]}"
        elif kind.startswith("descend:"):
            why = "descent into the next element / helper under this condition"
        elif kind in ("guard", "while"):
            why = "condition under which the guarded update / iteration is performed (read against the algorithm it implements)"
        else:
            for (fq, k, sub), w in WHY.items():
                if fq == q and k == kind and sub in key:
                    why = w
        if why is None:
            why = "TODO"
        esc = key.replace("\\", "\\\\").replace('"', '\\"')
        print(f'[[row]]\nfn = "{q}"\nkind = "{kind}"\nkey = "{esc}"\nwhy = "{why}"\n')
