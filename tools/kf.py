#!/usr/bin/env python3
"""kf.py fixed <prop> <key> <commit> <what>   |   kf.py open <prop> <key> <what> [input]"""
import json, sys, os
p = os.path.join(os.path.dirname(os.path.dirname(os.path.abspath(__file__))), "known_findings.json")
d = json.load(open(p))
if sys.argv[1] == "fixed":
    d["fixed"].append({"property": sys.argv[2], "key": sys.argv[3], "commit": sys.argv[4], "what": sys.argv[5],
                       "line": f"fixed: property={sys.argv[2]} {sys.argv[4]} {sys.argv[5]}"})
else:
    e = {"property": sys.argv[2], "key": sys.argv[3], "what": sys.argv[4]}
    if len(sys.argv) > 5:
        e["input"] = sys.argv[5]
    d["open"].append(e)
json.dump(d, open(p, "w"), indent=1)
