// mirfacts: a rustc_private driver used as RUSTC_WORKSPACE_WRAPPER under `cargo +nightly check`.
// For the local crates it dumps, per function body, the MIR control-flow graph with resolved
// callees, assert kinds, local types and source positions as one JSON file per crate
// (single write). All analysis happens in the Python rule layer.
#![feature(rustc_private)]

extern crate rustc_driver;
extern crate rustc_hir;
extern crate rustc_interface;
extern crate rustc_middle;
extern crate rustc_span;

use rustc_driver::Compilation;
use rustc_hir::def::DefKind;
use rustc_interface::interface::Compiler;
use rustc_middle::mir::{
    AssertKind, BasicBlockData, Body, Const, Operand, Place, Rvalue, StatementKind, TerminatorKind,
};
use rustc_middle::ty::{self, Instance, TyCtxt, TypingEnv};
use rustc_span::Span;
use std::fmt::Write as _;

struct Cb {
    out_dir: String,
    nonce: String,
}

fn esc(s: &str) -> String {
    let mut o = String::with_capacity(s.len() + 2);
    o.push('"');
    for c in s.chars() {
        match c {
            '"' => o.push_str("\\\""),
            '\\' => o.push_str("\\\\"),
            '\n' => o.push_str("\\n"),
            '\r' => o.push_str("\\r"),
            '\t' => o.push_str("\\t"),
            c if (c as u32) < 0x20 => {
                let _ = write!(o, "\\u{:04x}", c as u32);
            }
            c => o.push(c),
        }
    }
    o.push('"');
    o
}

fn span_json(tcx: TyCtxt<'_>, sp: Span) -> String {
    let sm = tcx.sess.source_map();
    // position of the outermost user-written code that produced this span
    let root = sp.source_callsite();
    let lo = sm.lookup_char_pos(root.lo());
    let file = format!("{}", lo.file.name.prefer_local_unconditionally());
    let mut mac = String::new();
    if sp.from_expansion() {
        let ed = sp.ctxt().outer_expn_data();
        if let Some(n) = ed.macro_def_id {
            mac = tcx.def_path_str(n);
        } else {
            mac = format!("{:?}", ed.kind);
        }
    }
    format!(
        "{{\"file\":{},\"line\":{},\"col\":{},\"exp\":{},\"mac\":{}}}",
        esc(&file),
        lo.line,
        lo.col.0,
        sp.from_expansion(),
        esc(&mac)
    )
}

fn place_json(p: &Place<'_>) -> String {
    format!("{{\"l\":{},\"proj\":{}}}", p.local.as_usize(), p.projection.len())
}

fn operand_json<'tcx>(tcx: TyCtxt<'tcx>, body: &Body<'tcx>, op: &Operand<'tcx>) -> String {
    match op {
        Operand::Copy(p) | Operand::Move(p) => {
            let ty = p.ty(&body.local_decls, tcx).ty;
            format!(
                "{{\"k\":\"place\",\"l\":{},\"proj\":{},\"ty\":{}}}",
                p.local.as_usize(),
                p.projection.len(),
                esc(&format!("{ty}"))
            )
        }
        Operand::Constant(c) => {
            let ty = c.const_.ty();
            let mut val = String::new();
            match c.const_ {
                Const::Val(..) | Const::Ty(..) | Const::Unevaluated(..) => {
                    if let Some(s) = c.const_.try_eval_scalar_int(tcx, TypingEnv::fully_monomorphized()) {
                        val = format!("{}", s.to_bits_unchecked());
                    }
                }
            }
            let mut fdef = String::new();
            if let ty::FnDef(did, _) = ty.kind() {
                fdef = tcx.def_path_str(*did);
            }
            format!(
                "{{\"k\":\"const\",\"ty\":{},\"val\":{},\"fn\":{}}}",
                esc(&format!("{ty}")),
                esc(&val),
                esc(&fdef)
            )
        }
        #[allow(unreachable_patterns)]
        _ => "{\"k\":\"other\"}".to_string(),
    }
}

fn rvalue_json<'tcx>(tcx: TyCtxt<'tcx>, body: &Body<'tcx>, rv: &Rvalue<'tcx>) -> String {
    let (kind, ops): (String, Vec<String>) = match rv {
        Rvalue::Use(op, ..) => ("use".into(), vec![operand_json(tcx, body, op)]),
        Rvalue::Ref(_, bk, p) => (format!("ref:{:?}", bk), vec![format!("{{\"k\":\"place\",\"l\":{},\"proj\":{}}}", p.local.as_usize(), p.projection.len())]),
        Rvalue::RawPtr(_, p) => ("rawptr".into(), vec![format!("{{\"k\":\"place\",\"l\":{},\"proj\":{}}}", p.local.as_usize(), p.projection.len())]),
        Rvalue::Cast(ck, op, ty) => (format!("cast:{:?}:{}", ck, ty), vec![operand_json(tcx, body, op)]),
        Rvalue::BinaryOp(bop, ops) => (format!("binop:{:?}", bop), vec![operand_json(tcx, body, &ops.0), operand_json(tcx, body, &ops.1)]),
        Rvalue::UnaryOp(uop, op) => (format!("unop:{:?}", uop), vec![operand_json(tcx, body, op)]),
        Rvalue::Discriminant(p) => ("discriminant".into(), vec![format!("{{\"k\":\"place\",\"l\":{},\"proj\":{}}}", p.local.as_usize(), p.projection.len())]),
        Rvalue::Aggregate(ak, ops) => (
            format!("aggregate:{}", match &**ak {
                rustc_middle::mir::AggregateKind::Adt(did, vidx, ..) => {
                    let adt = tcx.adt_def(*did);
                    format!("{}::{}", tcx.def_path_str(*did), adt.variant(*vidx).name)
                }
                rustc_middle::mir::AggregateKind::Closure(did, ..) => format!("closure:{}", tcx.def_path_str(*did)),
                rustc_middle::mir::AggregateKind::Tuple => "tuple".to_string(),
                rustc_middle::mir::AggregateKind::Array(..) => "array".to_string(),
                _ => "other".to_string(),
            }),
            ops.iter().map(|o| operand_json(tcx, body, o)).collect(),
        ),
        Rvalue::Repeat(op, _) => ("repeat".into(), vec![operand_json(tcx, body, op)]),
        Rvalue::CopyForDeref(p) => ("copyderef".into(), vec![format!("{{\"k\":\"place\",\"l\":{},\"proj\":{}}}", p.local.as_usize(), p.projection.len())]),
        _ => ("other".into(), vec![]),
    };
    format!("{{\"rv\":{},\"ops\":[{}]}}", esc(&kind), ops.join(","))
}

fn assert_kind<'tcx>(m: &AssertKind<Operand<'tcx>>) -> String {
    match m {
        AssertKind::BoundsCheck { .. } => "bounds".into(),
        AssertKind::Overflow(op, ..) => format!("overflow:{:?}", op),
        AssertKind::OverflowNeg(_) => "overflow:Neg".into(),
        AssertKind::DivisionByZero(_) => "div0".into(),
        AssertKind::RemainderByZero(_) => "rem0".into(),
        AssertKind::MisalignedPointerDereference { .. } => "misaligned".into(),
        AssertKind::NullPointerDereference => "nullptr".into(),
        _ => "other".into(),
    }
}

fn block_json<'tcx>(tcx: TyCtxt<'tcx>, def: rustc_span::def_id::DefId, body: &Body<'tcx>, bb: &BasicBlockData<'tcx>) -> String {
    let mut stmts: Vec<String> = vec![];
    for st in &bb.statements {
        if let StatementKind::Assign(b) = &st.kind {
            let (place, rv) = &**b;
            stmts.push(format!(
                "{{\"dst\":{},\"val\":{},\"sp\":{}}}",
                place_json(place),
                rvalue_json(tcx, body, rv),
                span_json(tcx, st.source_info.span)
            ));
        }
    }
    let term = bb.terminator();
    let sp = span_json(tcx, term.source_info.span);
    let t = match &term.kind {
        TerminatorKind::Goto { target } => format!("{{\"k\":\"goto\",\"succ\":[{}]}}", target.as_usize()),
        TerminatorKind::SwitchInt { discr, targets } => {
            let vals: Vec<String> = targets.iter().map(|(v, t)| format!("[{},{}]", v, t.as_usize())).collect();
            format!(
                "{{\"k\":\"switch\",\"discr\":{},\"cases\":[{}],\"otherwise\":{},\"succ\":[{}]}}",
                operand_json(tcx, body, discr),
                vals.join(","),
                targets.otherwise().as_usize(),
                targets.all_targets().iter().map(|t| t.as_usize().to_string()).collect::<Vec<_>>().join(",")
            )
        }
        TerminatorKind::Return => "{\"k\":\"return\",\"succ\":[]}".to_string(),
        TerminatorKind::Unreachable => "{\"k\":\"unreachable\",\"succ\":[]}".to_string(),
        TerminatorKind::UnwindResume => "{\"k\":\"resume\",\"succ\":[]}".to_string(),
        TerminatorKind::UnwindTerminate(_) => "{\"k\":\"terminate\",\"succ\":[]}".to_string(),
        TerminatorKind::Drop { place, target, .. } => {
            let ty = place.ty(&body.local_decls, tcx).ty;
            format!("{{\"k\":\"drop\",\"place\":{},\"ty\":{},\"succ\":[{}]}}", place_json(place), esc(&format!("{ty}")), target.as_usize())
        }
        TerminatorKind::Assert { msg, target, cond, expected, .. } => format!(
            "{{\"k\":\"assert\",\"msg\":{},\"cond\":{},\"expected\":{},\"succ\":[{}]}}",
            esc(&assert_kind(msg)),
            operand_json(tcx, body, cond),
            expected,
            target.as_usize()
        ),
        TerminatorKind::Call { func, args, destination, target, .. } => {
            let fty = func.ty(&body.local_decls, tcx);
            let mut callee = String::new();
            let mut resolved = String::new();
            let mut generics = String::new();
            let mut self_ty = String::new();
            let mut dynamic = false;
            if let ty::FnDef(did, gargs) = fty.kind() {
                callee = tcx.def_path_str(*did);
                generics = format!("{:?}", gargs);
                let tenv = TypingEnv::post_analysis(tcx, def);
                if let Ok(Some(inst)) = Instance::try_resolve(tcx, tenv, *did, gargs) {
                    resolved = tcx.def_path_str(inst.def_id());
                    if let ty::InstanceKind::Virtual(..) = inst.def {
                        dynamic = true;
                    }
                    // the impl's self type for inherent / trait impl methods
                    if let Some(impl_did) = tcx.impl_of_assoc(inst.def_id()) {
                        self_ty = format!("{}", tcx.type_of(impl_did).instantiate_identity().skip_norm_wip());
                    }
                }
            } else {
                dynamic = true;
                callee = format!("<fnptr {}>", fty);
            }
            let a: Vec<String> = args.iter().map(|s| operand_json(tcx, body, &s.node)).collect();
            format!(
                "{{\"k\":\"call\",\"callee\":{},\"resolved\":{},\"generics\":{},\"self_ty\":{},\"dyn\":{},\"args\":[{}],\"dest\":{},\"succ\":[{}]}}",
                esc(&callee),
                esc(&resolved),
                esc(&generics),
                esc(&self_ty),
                dynamic,
                a.join(","),
                place_json(destination),
                target.map(|t| t.as_usize().to_string()).unwrap_or_default()
            )
        }
        other => format!("{{\"k\":\"other\",\"succ\":[{}]}}", other.successors().map(|t| t.as_usize().to_string()).collect::<Vec<_>>().join(",")),
    };
    format!("{{\"cleanup\":{},\"stmts\":[{}],\"term\":{},\"tsp\":{}}}", bb.is_cleanup, stmts.join(","), t, sp)
}

impl rustc_driver::Callbacks for Cb {
    fn after_analysis<'tcx>(&mut self, _c: &Compiler, tcx: TyCtxt<'tcx>) -> Compilation {
        let krate = tcx.crate_name(rustc_span::def_id::LOCAL_CRATE).to_string();
        let ctypes: Vec<String> = tcx.crate_types().iter().map(|t| format!("{:?}", t)).collect();
        if krate == "build_script_build" {
            return Compilation::Continue;
        }
        let want = std::env::var("MIRFACTS_CRATES").unwrap_or_else(|_| "complgen".to_string());
        if !want.split(',').any(|w| w == krate) {
            return Compilation::Continue;
        }
        let mut fns: Vec<String> = vec![];
        for ldid in tcx.hir_body_owners() {
            let did = ldid.to_def_id();
            let kind = tcx.def_kind(did);
            if !matches!(kind, DefKind::Fn | DefKind::AssocFn | DefKind::Closure) {
                continue;
            }
            let body = tcx.optimized_mir(did);
            let path = tcx.def_path_str(did);
            let parent = if matches!(kind, DefKind::Closure) {
                tcx.def_path_str(tcx.typeck_root_def_id(did))
            } else {
                String::new()
            };
            let mut locals: Vec<String> = vec![];
            for d in body.local_decls.iter() {
                locals.push(esc(&format!("{}", d.ty)));
            }
            let mut names: Vec<String> = vec![];
            for v in &body.var_debug_info {
                if let rustc_middle::mir::VarDebugInfoContents::Place(p) = &v.value {
                    names.push(format!("[{},{},{}]", esc(v.name.as_str()), p.local.as_usize(), p.projection.len()));
                }
            }
            let blocks: Vec<String> = body.basic_blocks.iter().map(|bb| block_json(tcx, did, body, bb)).collect();
            let mut self_ty = String::new();
            if let Some(impl_did) = tcx.impl_of_assoc(did) {
                self_ty = format!("{}", tcx.type_of(impl_did).instantiate_identity().skip_norm_wip());
            }
            fns.push(format!(
                "{{\"path\":{},\"kind\":{},\"parent\":{},\"self_ty\":{},\"span\":{},\"argc\":{},\"locals\":[{}],\"names\":[{}],\"blocks\":[{}]}}",
                esc(&path),
                esc(&format!("{:?}", kind)),
                esc(&parent),
                esc(&self_ty),
                span_json(tcx, tcx.def_span(did)),
                body.arg_count,
                locals.join(","),
                names.join(","),
                blocks.join(",")
            ));
        }
        let out = format!(
            "{{\"crate\":{},\"crate_types\":{},\"nonce\":{},\"fns\":[{}]}}",
            esc(&krate),
            esc(&ctypes.join(",")),
            esc(&self.nonce),
            fns.join(",")
        );
        let file = format!("{}/{}-{}.json", self.out_dir, krate, ctypes.join("_"));
        std::fs::write(&file, out).expect("mirfacts: cannot write fact file");
        Compilation::Continue
    }
}

fn main() {
    let mut args: Vec<String> = std::env::args().collect();
    // invoked as: mirfacts <path-to-rustc> <rustc args...>
    if args.len() > 1 && (args[1].ends_with("rustc") || args[1].contains("rustc")) && !args[1].starts_with('-') {
        args.remove(1);
    }
    let out_dir = std::env::var("MIRFACTS_OUT").unwrap_or_else(|_| ".".to_string());
    let nonce = std::env::var("MIRFACTS_NONCE").unwrap_or_default();
    let mut cb = Cb { out_dir, nonce };
    rustc_driver::run_compiler(&args, &mut cb);
}
