#!/usr/bin/env python3
"""One-off helper that printed the first version of tables/panic_sites.toml from the MIR inventory with the
classification I arrived at by reading each site. The committed table is the reference; re-running this
overwrites it only when called with --write."""
import sys, collections, os
sys.path.insert(0, os.path.dirname(os.path.dirname(os.path.abspath(__file__))))
from vlib import core, mir as M, rules_panic as RP
m = M.get_mir(); r = m.reachable(['main::main'])
inv = RP.inventory(m, r)
g = collections.Counter((i['owner'], i['kind'], i['what'], i['producer'], i['mac']) for i in inv if not i.get('mech'))  # u32/usize additions: ARITH rule, no rows
EM = ('bash::write_completion_script', 'fish::write_completion_script', 'zsh::write_completion_script', 'pwsh::write_completion_script')
COMPL = ('dfa::DFA::get_command_completions', 'dfa::DFA::get_completion_compadds', 'dfa::DFA::get_completion_subwords', 'dfa::DFA::get_literal_completions')

def classify(o, k, w, p, mac):
    if 'ops::Index<' in o: return 'ARENA', 'bounds check of the arena behind an id newtype; ids are created only by alloc() and arenas never shrink (re-checked on every run)'
    if o.endswith('InternPool::lookup'): return 'INTERN', 'id newtypes of intern pools are created only by the pool itself (re-checked on every run)'
    if k == 'exit': return 'EXIT', 'exit status is the constant 1 (re-checked on every run)'
    if o in EM:
        if k == 'assert:bounds': return 'GUARD', 'chunk[0] under `chunk.len() > 1`'
        if k == 'panic': return 'GUARD', '`let [(id, _)] = chunk else unreachable` in the else of `chunk.len() > 1`; chunk_by never yields an empty chunk'
        if 'HashMap::get' in p: return 'KEYOF', 'tables_from_id.get(id): every id comes from iterating tables_from_id itself (hashes)'
        if 'IndexMap::get' in p: return 'KEYOF', 'id_from_dfa.get(dfa): dfa ids come from the transitions that get_subwords() enumerated to build id_from_dfa'
        if 'get_index_of' in p: return 'KEYOF', 'id_from_cmd.get_index_of(cmd) while iterating id_from_cmd itself'
    if o in ('fish::write_literals', 'zsh::write_literals'): return 'KEYOF', 'get_index_of(descr) while iterating the same set'
    if k == 'panic' and 'unreachable' in mac and w == 'core::panicking::panic':
        if o in ('check::do_propagate_fallback_levels', 'check::specialize_nonterminals', 'regex::do_from_expr'): return 'PHASE', 'unreachable!() on Expr::DistributiveDescription; eliminated by distribute_descriptions (PHASE rule, re-checked)'
        if o == 'check::do_check_subword_spaces': return 'GUARD', '`let [left, right] = pair else unreachable` on children.windows(2): every window has exactly 2 elements'
        if o == 'dfa::DFA::do_check_ambiguity_best_effort': return 'GUARD', 'slice pattern of length 2 on windows(2)'
        if o == 'regex::do_to_dot': return 'ARGUED', 'let-else on input_from_position[pos]: node kind and input kind are created together by one arm of do_from_expr (TR rule)'
        if o == 'regex::RegexInput::is_star_subword': return 'ARGUED', 'called only on inputs of a within-word regex, which never holds a Subword input: within-word expressions are flattened (parse::subword_sequence_expr, check::collapse_subwords; TC)'
    if k == 'panic' and w == 'std::rt::panic_fmt': return 'PHASE', 'unreachable!(msg) on Expr::DistributiveDescription; eliminated by distribute_descriptions (PHASE rule, re-checked)'
    if k == 'panic' and mac == 'std::assert': return 'ARGUED', 'debug_assert!: a root vertex has in-degree 0 so no earlier DFS can have visited it; path is cleared at the end of each iteration'
    if o == 'check::ValidGrammar::from_grammar':
        if 'Ustr, parse::HumanSpan' in p: return 'GUARD', 'commands[0] after the `commands.is_empty()` early return'
        if 'Vec<parse::ExprId>' in p: return 'ARGUED', 'call_variants[0]: collected from the same iter_call_variants() that was just shown non-empty'
        return 'KEYOF', 'nonterminal_definitions.get(name) for names of the resolution order, whose vertices are exactly the keys of nonterminal_definitions'
    if k == 'slice-contract': return 'CONST', 'windows(2): the size is the non-zero constant 2'
    if o in ('check::expr_get_head', 'check::expr_get_tail'): return 'ARGUED', 'first()/last() of Sequence.children: the parser builds a Sequence only from more than one factor and every rebuilding pass maps children one-to-one (RP rule)'
    if o == 'check::get_nonterminals_resolution_order': return 'KEYOF', 'nonterminal_definitions.get(vertex): vertices of the dependency graph are the keys of nonterminal_definitions'
    if o == 'check::get_not_depended_on_nonterminals': return 'KEYOF', 'get_mut(dep): dependencies were restricted to defined names by refs.retain(contains_key) and every defined name was entered with count 0'
    if o == 'check::traverse_nonterminal_dependencies_dfs': return 'ARGUED', 'path.pop() directly after the matching path.push() and a recursive call that leaves the length unchanged on Ok'
    if o in COMPL and k == 'index': return 'ARGUED', 'levels[fallback_level]: the vector has max_fallback_level + 1 entries and the maximum was taken over the same inputs (tables::get_lookup_tables)'
    if o in COMPL or o in ('dfa::DFA::get_command_transitions', 'dfa::DFA::get_compadd_transitions'):
        if 'get_index_of' in p: return 'KEYOF', 'id_from_cmd is DFA::get_commands() of the main automaton, which enumerates the commands of its own and of every within-word automaton inputs'
        if 'IndexMap::get' in p: return 'KEYOF', 'id_from_dfa is DFA::get_subwords() of the same automaton: built from the same transitions'
        return 'KEYOF', 'id_from_literal_description is built from get_all_literals(): all interned Literal inputs, with the same unwrap_or("") description key'
    if o == 'dfa::DFA::get_literal_transitions': return 'KEYOF', 'id_from_literal_description is built from get_all_literals(): all interned Literal inputs, with the same unwrap_or("") description key'
    if o == 'dfa::dfa_from_regex': return 'KEYOF', 'state_id_from_set_of_positions.get(set): every set is inserted into the map before it is put on the work list / looked up'
    if o == 'dfa::do_minimize':
        if 'SetInternPool::lookup' in p: return 'INTERN', 'SetId values come only from SetInternPool::intern of the same pool'
        if 'HashMap::get' in p: return 'ARGUED', 'representative map covers every state of the partition = get_all_states(); start, accepting and transition targets are among them'
        if 'min' in p or 'max' in p: return 'ARGUED', 'every interned group is non-empty: the three initial groups (empty non-accepting set is not interned) and both halves of every split (`remaining_states.is_empty()` -> continue; the removed half overlaps by construction)'
        return 'INFALLIBLE', 'u32::try_from(u32)'
    if o == 'dfa::do_to_dot': return 'KEYOF', 'id_from_dfa = get_subwords() of the same automaton'
    if o == 'dfa::find_bounds': return 'GUARD', 'index arithmetic guarded by `lower_bound > 0` / `upper_bound < len - 1`; len - 1 only after binary_search returned Ok (slice non-empty); the range lies between two valid indexes'
    if o == 'dfa::keep_only_states_with_input_transitions': return 'ARGUED', 'from_sorted_iter over a filtered RoaringBitmap iterator, which is ascending'
    if o == 'dfa::renumber_states': return 'ARGUED', 'the map is filled from the start state and both ends of every transition; alive accepting states are the start state or targets of kept transitions (representatives are reachable through representatives)'
    if o in ('main::ErrMsg::error', 'main::WarnMsg::warning'):
        if k.startswith('dep-contract'): return 'ARGUED', 'chic needs start <= end within the shown line: HumanSpan::from_range clamps multi-line constructs to their first line (fixed F-C06-3), from_machine uses column+1'
        return 'ARGUED', 'lines().nth(line - 1): every span starts at a character of the input, so its line exists'
    if o == 'main::handle_error': return 'GUARD', 'path.len() - 1 inside a loop over path.iter(): non-empty'
    if o.startswith('parse::HumanSpan::'): return 'ARGUED', 'nom_locate lines and columns are 1-based; HumanSpan::default() (zeros) is constructed only in tests'
    if o in ('parse::alternative_expr', 'parse::fallback_expr', 'parse::sequence_expr'):
        if k == 'vec-contract': return 'CONST', 'drain(..) over the full range cannot be out of bounds'
        return 'GUARD', 'drain(..).next() under `len() == 1`'
    if o == 'parse::subword_sequence_expr': return 'GUARD', 'into_iter().next() under `factors.len() == 1`'
    if o == 'parse::terminal': return 'GUARD', 'chars().next() under `input.starts_with([...])`'
    if o in ('regex::Regex::check_subwords', 'regex::Regex::do_check_ambiguous_inputs_tail_only_subword', 'regex::do_to_dot'): return 'ARGUED', 'input_from_position[pos]: positions are lengths of that vector taken at push time (TR rule); the end marker position is filtered out / has its own node kind'
    if o == 'regex::do_followpos': return 'GUARD', 'children[i], children[j] with i in 0..len and j < len (loop conditions)'
    return 'TODO', ''

rows = []
for (o, k, w, p, mac), n in sorted(g.items()):
    c, why = classify(o, k, w, p, mac)
    rows.append((o, k, w, p, mac, n, c, why))
def q(s): return '"' + s.replace('\\', '\\\\').replace('"', '\\"') + '"'
out = ['# Panic-capable sites reachable from main, grouped by (function, kind, callee, producer of the unwrapped value, macro).',
       '# Every group found in the MIR of the current tree must match exactly one row with the same count; a row names the',
       '# discharge class. Keys contain no line numbers. Classes: ARENA INTERN EXIT PHASE (re-checked mechanically), GUARD KEYOF',
       '# CONST INFALLIBLE ARITH ARGUED (argument recorded here, confirmed by reading), FINDING (listed in known_findings.json).', '']
for o, k, w, p, mac, n, c, why in rows:
    out.append(f'[[site]]\nfn = {q(o)}\nkind = {q(k)}\nwhat = {q(w)}\nproducer = {q(p)}\nmac = {q(mac)}\ncount = {n}\nclass = {q(c)}\nwhy = {q(why)}\n')
print(collections.Counter(r[6] for r in rows), len(rows), sum(r[5] for r in rows))
for r_ in rows:
    if r_[6] == 'TODO': print(r_[:6])
if '--write' in sys.argv:
    open(os.path.join(core.VERIF, 'tables/panic_sites.toml'), 'w').write('\n'.join(out))
