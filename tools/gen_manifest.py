#!/usr/bin/env python3
"""Regenerates /verif/MANIFEST.json from the per-property metadata below (claimed vs not applicable)."""
import json
import os

V = os.path.dirname(os.path.dirname(os.path.abspath(__file__)))
props = [json.loads(l) for l in open(os.path.join(V, "properties.jsonl"))]

CLAIMED = {
    "C03": dict(
        technique="static analysis: syn provenance rules on dfa::do_minimize (no identity return, trimming chain, representative mapping, dead-state completion, non-empty blocks)",
        text="Decides the structural necessary conditions of the minimiser on /repo's current source: it never returns its input unchanged, the result flows through the documented trimming chain, start/accepting/targets are mapped through the representative map (min of each final block), "
        "missing transitions are completed to the dead state before refinement, only non-empty blocks enter the partition, and minimize is applied to the emitted and to every within-word automaton. It does NOT decide that the refinement loop reaches the coarsest partition.",
        note="trusted: rustc's checks; RoaringBitmap set algebra; syn's parse",
        design="5/C03",
    ),
    "C04": dict(
        technique="static analysis: syn syntax-tree rules over the four emitters and the dfa.rs getters (dimension/base typing of format holes, cell roles, field-flow provenance, isomorphism coverage, defined-vs-called generated names, flag agreement)",
        text="Decides the data side of C04 on /repo's current source for all four emitters: every state-id hole carries the module's array base exactly once and id holes none, table builders receive the module's own base, "
        "each `[k]=v` cell takes key and value from the same row, the getters build rows from the fields the property names (literal, description, target, fallback level, source state, decreasing-length ids, one shared command-id set), "
        "every field a shared-shape function prints is compared by isomorphic_to and chunk_by never groups without it, generated function names are defined as called and the registration line names the command and the entry function, "
        "tables and the code reading them are emitted under the same flags, and literal / description text reaches a table only through the module's string-constant encoder (shared with C07). It does NOT decide that the tables equal the automaton value by value, nor the reader logic of the fish/zsh/pwsh skeletons.",
        note="trusted: rustc's checks; syn's parse; the syntactic type inference treats unknown types as unknown; type aliases StateId/LiteralId/CommandId carry the dimensions",
        design="5/C04",
    ),
    "C14": dict(
        technique="static analysis: rustc-checked type-level witnesses (auto-trait reachability, compile-fail with twins) + syn span-use / ordering rules + MIR reachability",
        text="Decides non-interference of layout-dependent data with the output: no HumanSpan and no ExprId is reachable in the types the emitters receive (auto-trait witnesses compiled against /repo, each with a failing twin), arena ids have no ordering and their number is read only by Index/Display (Display unreachable from main), "
        "spans outside the parser flow only into diagnostics, definitions are name-keyed and collected before any pass. Category 'other': the type-level part is a proof by rustc, the rest structural rules. Does not decide that the parser builds the same tree for re-laid-out text (C05's territory).",
        note="trusted: rustc's trait solver and type checker (nightly auto_traits/negative_impls); rustc MIR call graph; syn's parse",
        design="5/C14",
    ),
    "C09": dict(
        technique="static analysis: identity-field analysis of the alphabet type (derive lists vs matched word), key-coarsening rule on table builders, type-level NoSpan witness",
        text="Decides which fields take part in the symbol equality used by the subset construction and whether each extra field is covered by a rejecting validation; reports every table that re-keys transitions by a lossy projection; shows spans cannot be part of symbol identity; no pass edits an arena node in place (definition bodies are shared between references, a level is per occurrence). "
        "Two design-level defects are open known findings (fallback level in identity; structural interning of within-word automata); a new identity field or projection is reported as a new violation. Does not decide the `||`/`|` equivalence over all grammars.",
        note="trusted: derive(PartialEq, Eq, Hash) semantics; rustc's trait solver for the witness; the table of 'which field is the matched word' in props/c09.py",
        design="5/C09",
    ),
    "C13": dict(
        technique="static analysis: MIR scan for LocatedSpan constructions (resolved callee + generics) judged by syntactic context; syn provenance rules for span flow and 0/1-based units",
        text="Decides on /repo's current source that located positions cannot be corrupted structurally: a LocatedSpan is wrapped only at the parser entry (other constructions are value-only), every from_range takes an earlier and a later remaining input of the same parse, "
        "each located Error/warning stores the span of the construct it names, and 1-based vs 0-based line/column accessors go to the right slots of the renderer. Does not decide nom_locate's arithmetic, byte-vs-character columns, or which statement a parse error is attributed to.",
        note="trusted: nom_locate's documented offset-based line/column; rustc's callee resolution; syn's parse",
        design="5/C13",
    ),
    "C10": dict(
        technique="static analysis: MIR taint-free argument (resolved receiver types of every hash-container iteration, ambient-input call scan) + dependency-source facts; positive control crate",
        text="Decides, for all grammars, that the shipped code iterates no container whose order is seeded per process and reads no clock/environment/pid/rng/address, by classifying every iteration-like call reachable from main by its fully resolved receiver type "
        "and re-reading from the resolved dependency sources the facts that make hashbrown's and ustr's hashers fixed-key. A control crate with every forbidden construct must be flagged on each run. Determinism inside dependencies is taken from their contracts.",
        note="trusted: rustc's type and callee resolution; the documented iteration order of BTreeMap/IndexMap/Vec/RoaringBitmap; std DefaultHasher::new fixed keys; regex-level reading of hashbrown/ahash/ustr sources",
        design="5/C10",
    ),
    "C06": dict(
        technique="static analysis: MIR may-panic / recursion / exit-status inventory (rustc_private driver) + CFG ordering of file creation vs. validation",
        text="Decides on the MIR of the shipped targets that every panic-capable site reachable from main is one of the inventoried, individually discharged sites (new or moved sites are reported; additions on u32/usize are discharged as a class by a magnitude argument whose visible premises are re-checked), that every recursion is tabled with its depth argument, "
        "that all exits use status 1 and that the script destination is created only after all validation, with no diagnostic exit afterwards. Unbounded recursion depth is reported as known findings. "
        "Does not decide promptness of termination, panics inside dependencies beyond listed contracts, or I/O faults.",
        note="trusted: rustc's MIR and callee resolution; the discharge arguments in tables/panic_sites.toml and tables/recursion.toml (classes GUARD/KEYOF/ARGUED are confirmed by reading, ARENA/INTERN/EXIT/PHASE re-checked); the magnitude argument of the ARITH class",
        design="5/C06",
    ),
    "C08": dict(
        technique="static analysis: syn syntax-tree rules (must-pass-through of validations, guard-variant agreement, traversal completeness, cycle-search seeding)",
        text="Decides structural necessary conditions of C08 on /repo's current source: every validation sits unconditionally on every success path; each Error variant is built under the predicate the property names; "
        "handle_error renders each located variant and exits 1; the checkers descend into every branch, through definitions and over all automaton states; the cycle search is seeded from every vertex. "
        "It does not decide that every clean grammar is accepted.",
        note="trusted: rustc's checks; tables/tree.toml allowed drops; syn's parse of the source",
        design="5/C08",
    ),
    "C11": dict(
        technique="static analysis: syn syntax-tree rules (lookup-order, dominance of the shell filter, field-flow provenance, per-shell arms)",
        text="Decides on /repo's current source the order in which target-shell specialisation, plain definition and builtin are consulted (map roles resolved from the call sites), that a specialisation is recorded only for the target shell, "
        "that the command text flows unchanged into the expression, and that specialisation reaches every reference. Does not decide what builtin command strings do in a real shell.",
        note="trusted: rustc's checks; syn's parse; the accepted idioms for 'plain definition overrides builtin' listed in props/c11.py",
        design="5/C11",
    ),
    "C15": dict(
        technique="static analysis: syn syntax-tree rules (bookkeeping-site dominance, provenance of the warning sets, exit-free warning blocks)",
        text="Decides on /repo's current source that the three warning sets are built the way C15 requires (initialised from all plain definitions, a name is removed at every reference before any exit, `used` set exactly where the specialisation is taken, "
        "undefined names collected from the compiled expression) and that the warning blocks in main::aot print one line per entry, exempt only `_`, and have no exit edge. Does not decide value-level set equality.",
        note="trusted: rustc's checks; syn's parse",
        design="5/C15",
    ),
    "C07": dict(
        technique="static analysis: symbolic encoder/decoder transducer composition decided for all strings (4 shells), raw-text taint analysis of every format hole over the syn tree, quoting/eval rules on the parsed bash skeleton with def-use dimension inference",
        text="Decides on /repo's current source: (ENC) for each of the four make_string_constant encoders, extracted on every run as a chain of character replacements, that the target shell's double-quote rules read `\"` + encode(s) + `\"` back as exactly s, "
        "closed at its end and with no live expansion, for ALL strings s (product construction with the shell's decoder transducer, not sampling); (SINK/QCTX) that in every emitter grammar text reaches a script hole only through that encoder "
        "(except the documented raw command body) and that encoded holes sit outside quotes in their templates; (SK-QUOTE) that in the emitted bash program, for every flag assignment examined, no comparison uses text as an unquoted glob pattern, "
        "eval re-reads only clean values, and no text variable is expanded unquoted in a command word. It does NOT decide that real shells follow their manuals (the decoders are transcriptions), nor what readline finally displays; zsh/fish/pwsh skeleton quoting is not analysed.",
        note="trusted: decoder transcriptions in vlib/xducer.py; the text/clean seeds in vlib/shdims.py (cword is an integer, bind -v output is not user text); syn's parse; the syntactic type inference (unknown types are followed structurally)",
        design="5/C07",
    ),
    "C16": dict(
        technique="static analysis: symbolic encoder/Graphviz-lexer transducer composition for all strings, raw-text taint analysis of every hole the two dumpers write, node-identifier provenance (array base, same-automaton), per-arm label/edge presence, brace balance",
        text="Decides on /repo's current source, for the --dfa and --regex dumpers: the label encoder keeps every string inside its quotes and readable back, for ALL strings; literal, description, command and nonterminal text reaches the file only through it, "
        "with the quoting context of each hole matching the encoder used; every node identifier of the dfa dump is prefix + state + the selected shell's array base, prefix and state taken from the same automaton; --dfa receives the selected shell's ARRAY_START; "
        "every arm of the regex dumper labels its node before any return, every transition arm of the dfa dumper writes an edge, Cat/Or children are all visited, braces balance. It does NOT decide value-level facts (one node per state, one edge per transition) nor anything about Graphviz beyond its string lexer.",
        note="trusted: the Graphviz quoted-string transcription in vlib/xducer.py; syn's parse; provenance terms of vlib/ast.py; tables/tree.toml (the Star drop)",
        design="5/C16",
    ),
    "C12": dict(
        technique="static analysis: syn rule on the literal ordering (accepted decreasing-length idioms, no later reordering, ids = positions), control-flow rules on the parsed bash within-word matcher and prefix filter, guard-agreement check against the zsh/fish/pwsh sibling matchers",
        text="Decides on /repo's current source the structural conditions under which overlapping values inside a word are told apart: literals are numbered longest first and nothing reorders them; the bash matcher visits ids in that order, tests the exact match before "
        "the `typed text is a prefix of this literal` exit, never takes that exit for a complete earlier word, requires a transition for exit/match/consume, advances by the literal's length, and reports success iff the word was consumed; the prefix filter applies no condition "
        "beyond the prefix pattern; the three sibling matchers carry the same guards on the same exit. It does NOT decide the COMPREPLY of concrete value sets, command-output candidates inside a word, or the non-bash matchers beyond that agreement.",
        note="trusted: vlib/bashparse.py's reading of the bash subset used; per-shell patterns that recognise the sibling exit line; byte length = bash ${#x} for ASCII literals",
        design="5/C12",
    ),
    "C01": dict(
        technique="static analysis: provenance of the emitter call arguments in main::aot (pipeline and shell arms), control-flow / def-use rules on the parsed bash skeleton (word walk, fallback-level loop, prefix filter, per-iteration scratch arrays) for every guard-flag assignment examined, flag agreement between tables and readers",
        text="Decides the structural necessary conditions of C01 on /repo's current source: the bash emitter receives the minimised automaton and the command name of the same validated grammar, for the selected shell; the emitted word walk starts at the start state, tries literal > within-word > command > any-word "
        "transitions in that order from the tables written for them, advances exactly one word per transition, fails when no block matches, compares literals with the quoted word; the fallback loop visits levels 0..=max, reads each source from the level table at the current state, filters every source with the typed word, "
        "stops at the first level with a match, and uses COMP_WORDBREAKS only to trim the reply after the last word-break character. It does NOT decide that bash executes the skeleton as assumed, nor the automaton (C02/C03) or the within-word matcher (C12). Breaking any decided clause breaks C01; the clauses holding do not prove it.",
        note="trusted: vlib/bashparse.py's reading of the bash subset used; syn's parse; provenance terms of vlib/ast.py. One open known finding (W4).",
        design="5/C01",
    ),
    "C17": dict(
        technique="static analysis: call-site classification and def-use rules on the parsed bash skeleton (command invocations, their arguments, output parsing, filtering, table guards), per-iteration scratch arrays, shared command-id set and command-text field flow on the Rust side",
        text="Decides on /repo's current source, for every flag assignment examined: the body of each command function is the raw command text and its id is the index in the one set all tables use; the arguments at each of the four call-site classes are the documented ones, quoted; output lines are split at a tab only and the first field kept; "
        "completion candidates pass the prefix filter with the prefix the command received; every invocation iterates the command-table cell of the current state; in matching a state change happens only under equality with the quoted word, on candidate arrays reset per iteration; the command text reaching the automaton is that of the definition chosen for the target shell. "
        "It does NOT decide what user commands print or how a real bash runs process substitutions. One open known finding (leaving the walk at the last complete word).",
        note="trusted: vlib/bashparse.py; the classification of call sites by enclosing function and loop; syn's parse",
        design="5/C17",
    ),
    "C02": dict(
        technique="static analysis: syn syntax-tree rules (traversal completeness, rebuild-preserves incl. stale children, translation table, field-flow provenance, pass order, post-order of the expansion order) + MIR scan for in-place edits of the shared expression arenas (with positive control)",
        text="Decides the shape-visible necessary conditions of C02 on /repo's current source (every pass descends into every child; rebuilt nodes keep their labels; "
        "each Expr variant is translated to the regex shape its meaning requires; literal/description/|| index/command flow unchanged into the automaton alphabet; "
        "passes applied in order to the expression and every definition; definitions expanded in dependency (post-)order; shared arena nodes never edited in place; the firstpos / lastpos / followpos scans of a concatenation stop at the child whose own nullability was tested). It does NOT decide language equivalence of the Glushkov/subset construction; breaking any decided clause breaks the property, "
        "but the clauses holding does not prove it.",
        note="trusted: rustc's own checks (exhaustive matches, types); tables/tree.toml (allowed drops confirmed by reading); syn's parse of the source",
        design="5/C02",
    ),
}
NA = {
    "C05": "round-trip equality quantifies over all trees x strings x layouts and is about values returned by an imperative lexer and a backtracking combinator ladder; the only shape-visible clauses (precedence ladder, escape pairs) are already pinned by parse::tests; no sound static argument in reach (DESIGN 5/C05)",
}
PENDING = "not registered, nothing claimed: the checker designed in DESIGN.md section 5 is unfinished (rules still produce untriaged reports on the unchanged tree, see DESIGN.md section 10), and an unfinished check must not raise alarms; the technique does apply to the structural clauses named there"

# clauses added after the fifth held-out round (DESIGN 16); appended to the claim text of the checks that gained them
ROUND5 = {
    "C01": " Round 5: bash's string-constant encoder reads back as the literal for all strings (ENC, shared with C07) and the top-level match site keeps the first tab field of a command's output (SK-CMD V4, shared with C17); the reply block offers every match of the winning level (SK-FB F4).",
    "C02": " Round 5: a rebuilding arm keeps the operator over the matched node's children (RP KIND) and a pass fills an Option field only where the node has none (RP FILL).",
    "C04": " Round 5: per-level table vectors keep one slot per `||` level (PERLEVEL).",
    "C09": " Round 5: the literal scan of the word walk ends only by taking a transition (SK-WALK W5), operand i of a `||` is level i whatever encloses it (FF index), per-level tables keep one slot per level (PERLEVEL).",
    "C10": " Round 5: no result order taken from thread scheduling (channels, scoped threads, pools: AMBIENT), and a hand-written `eq` on an enum with a derived Hash compares every field (HASHEQ clause C).",
    "C11": " Round 5: the dependency collector descends into every operator (TC on do_get_nonterm_refs).",
    "C12": " Round 5: nothing between the matcher and COMPREPLY drops look-alike candidates (SK-FB F4 reply clause).",
    "C14": " Round 5: str/char whitespace tests (trim_start, is_whitespace ..) are used in the parser only inside the blank/comment skippers (BLANKS).",
    "C16": " Round 5: a string parameter of a public dump function never reaches the file bare (SINK), and nodes are declared before an edge mentions them where shapes are set by `node [..]` statements (DECLFIRST).",
}
for _k, _v in ROUND5.items():
    CLAIMED[_k]["text"] = CLAIMED[_k]["text"] + _v

checks = []
na = []
for p in props:
    pid = p["id"]
    if pid in CLAIMED:
        c = CLAIMED[pid]
        checks.append(
            {
                "property_id": pid,
                "quick_cmd": f"./check {pid} --tier quick",
                "thorough_cmd": f"./check {pid} --tier thorough",
                "evidence_file": f"/verif/evidence/{pid}.json",
                "replay_cmd_template": "./check --replay {path}",
                "engine": "rules",
                "level_claimed": {"category": c.get("category", "other"), "text": c["text"], "design_ref": c["design"]},
                "level_note": c["note"],
                "technique": c["technique"],
            }
        )
    else:
        na.append({"property_id": pid, "reason": NA.get(pid, PENDING)})

m = {
    "version": 1,
    "setup_cmd": "./setup.sh",
    "hooks": {
        "guard": "complgen_verif",
        "enable": "none needed: static analysis reads /repo's source as it is; the guard name exists only because the schema requires one",
        "baseline_off_cmd": "cd /repo && cargo test --workspace --no-fail-fast --offline",
        "source_commits": [],
        "add_only": True,
    },
    "engines": [
        {"name": "M mirfacts", "path": "tools/mirfacts", "serves_properties": ["C01", "C02", "C06", "C09", "C10", "C13", "C14", "C17"], "kind_free_text": "rustc_private driver (RUSTC_WORKSPACE_WRAPPER under cargo +nightly check through tools/shim/rustc): MIR CFG, resolved callees, assert kinds, types; analyses in vlib/mir.py, vlib/rules_panic.py"},
        {"name": "W witness", "path": "tools/witness", "serves_properties": ["C09", "C14"], "kind_free_text": "harness crate path-depending on /repo, compiled by nightly rustc: auto-trait reachability witnesses and compile_fail twins (vlib/witness.py)"},
        {"name": "S srcfacts", "path": "tools/srcfacts", "serves_properties": sorted(CLAIMED), "kind_free_text": "syn 2 syntax-tree dump (JSON) of /repo/src/*.rs; provenance resolver, raw-text taint / origin queries (vlib/taint.py), validator exemption table (vlib/rules_skips.py) and rules in vlib/*.py"},
        {"name": "K skeleton", "path": "vlib/bashparse.py", "serves_properties": ["C01", "C07", "C09", "C12", "C17"], "kind_free_text": "assembles the bash program that bash.rs prints (templates + guard flags, vlib/emission.py), parses it (vlib/bashparse.py), infers text/clean dimensions of its variables (vlib/shdims.py); rules in props/sk_bash.py; nothing is executed"},
        {"name": "X transducer", "path": "vlib/xducer.py", "serves_properties": ["C07", "C16"], "kind_free_text": "decides decode(encode(s)) = s, closed and inert, for ALL strings: the repo's replace-chain encoder (extracted from the syntax tree on every run) composed with a transcription of the target's quoted-string rules (bash, zsh, fish, PowerShell, Graphviz)"},
    ],
    "checks": checks,
    "not_applicable": na,
    "notes": "All checks are static: they read /repo's working tree, never run complgen, its tests or an emitted script.",
}
json.dump(m, open(os.path.join(V, "MANIFEST.json"), "w"), indent=1)
print(f"{len(checks)} claimed, {len(na)} not applicable")
