// COMPILE-FAIL (E0369): ExprId has no ordering, so arena numbering cannot be compared or sorted by.
fn main() {
    let a = complgen::parse::ExprId(0);
    let b = complgen::parse::ExprId(1);
    let _ = a < b;
}
