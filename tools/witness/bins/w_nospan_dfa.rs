// WITNESS (must compile): no source position is reachable in the field types of what the emitters receive.
#![feature(auto_traits, negative_impls)]
auto trait NoSpan {}
impl !NoSpan for complgen::parse::HumanSpan {}
fn assert_nospan<T: NoSpan>() {}
fn main() {
    assert_nospan::<complgen::dfa::DFA>();
    assert_nospan::<complgen::dfa::Inp>();
    assert_nospan::<complgen::dfa::InpInternPool>();
    assert_nospan::<complgen::dfa::DFAInternPool>();
}
