// TWIN (must compile): differs from t_exprid_ord.rs only by the operator.
fn main() {
    let a = complgen::parse::ExprId(0);
    let b = complgen::parse::ExprId(1);
    let _ = a == b;
}
