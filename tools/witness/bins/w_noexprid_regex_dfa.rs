// WITNESS (must compile): arena numbering (ExprId) is unreachable from the regex and the automaton.
#![feature(auto_traits, negative_impls)]
auto trait NoExprId {}
impl !NoExprId for complgen::parse::ExprId {}
fn assert_noid<T: NoExprId>() {}
fn main() {
    assert_noid::<complgen::regex::Regex>();
    assert_noid::<complgen::regex::RegexInput>();
    assert_noid::<complgen::regex::RegexNode>();
    assert_noid::<complgen::dfa::DFA>();
    assert_noid::<complgen::dfa::Inp>();
}
