// TWIN (must fail with E0277)
#![feature(auto_traits, negative_impls)]
auto trait NoExprId {}
impl !NoExprId for complgen::parse::ExprId {}
fn assert_noid<T: NoExprId>() {}
fn main() {
    assert_noid::<complgen::parse::Expr>();
}
