// COMPILE-FAIL (E0369): RegexNodeId has no ordering either.
fn f(a: complgen::regex::RegexNodeId, b: complgen::regex::RegexNodeId) -> bool {
    a < b
}
fn main() {
    let _ = f;
}
