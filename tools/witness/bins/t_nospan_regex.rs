// TWIN (must fail with E0277): the same assertion on a type that does hold spans, so that a wrong path or a
// vacuous auto trait cannot make the witness pass.
#![feature(auto_traits, negative_impls)]
auto trait NoSpan {}
impl !NoSpan for complgen::parse::HumanSpan {}
fn assert_nospan<T: NoSpan>() {}
fn main() {
    assert_nospan::<complgen::regex::Regex>();
}
