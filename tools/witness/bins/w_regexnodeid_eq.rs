fn f(a: complgen::regex::RegexNodeId, b: complgen::regex::RegexNodeId) -> bool {
    a == b
}
fn main() {
    let _ = f;
}
