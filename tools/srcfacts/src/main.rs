// srcfacts: parse Rust source files with syn and dump a generic JSON syntax tree.
// Usage: srcfacts OUT.json FILE.rs...
// Everything rule-specific lives in the Python rule layer; this tool only exposes the tree
// (with macro invocations parsed as comma-separated expressions where possible) and positions.
use proc_macro2::{Span, TokenStream};
use quote::ToTokens;
use serde_json::{json, Map, Value};
use syn::punctuated::Punctuated;
use syn::spanned::Spanned;
use syn::*;

fn pos(v: &mut Map<String, Value>, sp: Span) {
    let s = sp.start();
    let e = sp.end();
    v.insert("l".into(), json!(s.line));
    v.insert("c".into(), json!(s.column));
    v.insert("el".into(), json!(e.line));
    v.insert("ec".into(), json!(e.column));
}

fn node(kind: &str, sp: Span) -> Map<String, Value> {
    let mut m = Map::new();
    m.insert("k".into(), json!(kind));
    pos(&mut m, sp);
    m
}

fn toks<T: ToTokens>(t: &T) -> String {
    t.to_token_stream().to_string()
}

fn path_str(p: &Path) -> String {
    let mut s = String::new();
    if p.leading_colon.is_some() {
        s.push_str("::");
    }
    for (i, seg) in p.segments.iter().enumerate() {
        if i > 0 {
            s.push_str("::");
        }
        s.push_str(&seg.ident.to_string());
    }
    s
}

fn path_generics(p: &Path) -> Value {
    let mut out = vec![];
    for seg in &p.segments {
        match &seg.arguments {
            PathArguments::None => {}
            a => out.push(toks(a)),
        }
    }
    json!(out)
}

fn attrs(a: &[Attribute]) -> Value {
    Value::Array(
        a.iter()
            .filter(|x| !x.path().is_ident("doc"))
            .map(|x| json!(toks(&x.meta)))
            .collect(),
    )
}

fn is_cfg_test(a: &[Attribute]) -> bool {
    a.iter().any(|x| {
        x.path().is_ident("cfg") && {
            let s = toks(&x.meta);
            s.contains("test") && !s.contains("not")
        }
    })
}

fn derives(a: &[Attribute]) -> Value {
    let mut out: Vec<String> = vec![];
    for x in a {
        if x.path().is_ident("derive") {
            let _ = x.parse_nested_meta(|m| {
                out.push(path_str(&m.path));
                Ok(())
            });
        }
    }
    json!(out)
}

fn lit(l: &Lit) -> Value {
    let mut m = node("Lit", l.span());
    match l {
        Lit::Str(s) => {
            m.insert("lit".into(), json!("str"));
            m.insert("v".into(), json!(s.value()));
            let raw = toks(s);
            m.insert("raw".into(), json!(raw.starts_with('r')));
        }
        Lit::ByteStr(s) => {
            m.insert("lit".into(), json!("bytestr"));
            m.insert("v".into(), json!(String::from_utf8_lossy(&s.value()).to_string()));
        }
        Lit::Byte(b) => {
            m.insert("lit".into(), json!("byte"));
            m.insert("v".into(), json!(b.value()));
        }
        Lit::Char(c) => {
            m.insert("lit".into(), json!("char"));
            m.insert("v".into(), json!(c.value().to_string()));
        }
        Lit::Int(i) => {
            m.insert("lit".into(), json!("int"));
            m.insert("v".into(), json!(i.base10_digits()));
            m.insert("suffix".into(), json!(i.suffix()));
        }
        Lit::Float(f) => {
            m.insert("lit".into(), json!("float"));
            m.insert("v".into(), json!(f.base10_digits()));
        }
        Lit::Bool(b) => {
            m.insert("lit".into(), json!("bool"));
            m.insert("v".into(), json!(b.value));
        }
        other => {
            m.insert("lit".into(), json!("other"));
            m.insert("v".into(), json!(toks(other)));
        }
    }
    Value::Object(m)
}

fn opt_expr(e: &Option<Box<Expr>>) -> Value {
    match e {
        Some(e) => expr(e),
        None => Value::Null,
    }
}

fn label(l: &Option<Label>) -> Value {
    match l {
        Some(l) => json!(l.name.ident.to_string()),
        None => Value::Null,
    }
}

fn lifetime(l: &Option<Lifetime>) -> Value {
    match l {
        Some(l) => json!(l.ident.to_string()),
        None => Value::Null,
    }
}

fn macro_node(mac: &Macro, sp: Span) -> Value {
    let mut m = node("Macro", sp);
    let name = path_str(&mac.path);
    m.insert("name".into(), json!(name));
    let short = name.rsplit("::").next().unwrap_or("").to_string();
    // `matches!(expr, pat)` : first arg expr, rest pattern tokens
    if short == "matches" {
        let parsed: Result<(Expr, TokenStream)> = mac.parse_body_with(|input: parse::ParseStream| {
            let e: Expr = input.parse()?;
            let _: Token![,] = input.parse()?;
            let rest: TokenStream = input.parse()?;
            Ok((e, rest))
        });
        if let Ok((e, rest)) = parsed {
            m.insert("args".into(), json!([expr(&e)]));
            m.insert("pat_tokens".into(), json!(rest.to_string()));
            return Value::Object(m);
        }
    }
    if short == "vec" {
        // vec![x; n]
        let parsed: Result<(Expr, Expr)> = mac.parse_body_with(|input: parse::ParseStream| {
            let e: Expr = input.parse()?;
            let _: Token![;] = input.parse()?;
            let n: Expr = input.parse()?;
            Ok((e, n))
        });
        if let Ok((e, n)) = parsed {
            m.insert("args".into(), json!([expr(&e), expr(&n)]));
            m.insert("repeat".into(), json!(true));
            return Value::Object(m);
        }
    }
    match mac.parse_body_with(Punctuated::<Expr, Token![,]>::parse_terminated) {
        Ok(args) => {
            let mut out = vec![];
            for a in args.iter() {
                // named format args: `name = expr` parse as Assign
                out.push(expr(a));
            }
            m.insert("args".into(), Value::Array(out));
        }
        Err(_) => {
            m.insert("tokens".into(), json!(mac.tokens.to_string()));
        }
    }
    Value::Object(m)
}

fn block(b: &Block) -> Value {
    let mut m = node("Block", b.span());
    let mut stmts = vec![];
    for s in &b.stmts {
        stmts.push(stmt(s));
    }
    m.insert("stmts".into(), Value::Array(stmts));
    Value::Object(m)
}

fn stmt(s: &Stmt) -> Value {
    match s {
        Stmt::Local(l) => {
            let mut m = node("Local", l.span());
            m.insert("pat".into(), pat(&l.pat));
            if let Some(init) = &l.init {
                m.insert("init".into(), expr(&init.expr));
                if let Some((_, d)) = &init.diverge {
                    m.insert("else".into(), expr(d));
                }
            }
            Value::Object(m)
        }
        Stmt::Item(i) => {
            let mut m = node("ItemStmt", i.span());
            m.insert("item".into(), item(i));
            Value::Object(m)
        }
        Stmt::Expr(e, semi) => {
            let mut m = node("ExprStmt", e.span());
            m.insert("expr".into(), expr(e));
            m.insert("semi".into(), json!(semi.is_some()));
            Value::Object(m)
        }
        Stmt::Macro(sm) => {
            let mut m = node("ExprStmt", sm.span());
            m.insert("expr".into(), macro_node(&sm.mac, sm.span()));
            m.insert("semi".into(), json!(sm.semi_token.is_some()));
            Value::Object(m)
        }
    }
}

fn member(mm: &Member) -> Value {
    match mm {
        Member::Named(i) => json!(i.to_string()),
        Member::Unnamed(i) => json!(i.index.to_string()),
    }
}

fn expr(e: &Expr) -> Value {
    let sp = e.span();
    match e {
        Expr::Paren(p) => expr(&p.expr),
        Expr::Group(g) => expr(&g.expr),
        Expr::Array(a) => {
            let mut m = node("Array", sp);
            m.insert("elems".into(), Value::Array(a.elems.iter().map(expr).collect()));
            Value::Object(m)
        }
        Expr::Assign(a) => {
            let mut m = node("Assign", sp);
            m.insert("left".into(), expr(&a.left));
            m.insert("right".into(), expr(&a.right));
            Value::Object(m)
        }
        Expr::Binary(b) => {
            let mut m = node("Binary", sp);
            m.insert("op".into(), json!(toks(&b.op)));
            m.insert("left".into(), expr(&b.left));
            m.insert("right".into(), expr(&b.right));
            Value::Object(m)
        }
        Expr::Block(b) => {
            let mut v = block(&b.block);
            if let Value::Object(m) = &mut v {
                m.insert("label".into(), label(&b.label));
            }
            v
        }
        Expr::Break(b) => {
            let mut m = node("Break", sp);
            m.insert("label".into(), lifetime(&b.label));
            m.insert("expr".into(), opt_expr(&b.expr));
            Value::Object(m)
        }
        Expr::Call(c) => {
            let mut m = node("Call", sp);
            m.insert("func".into(), expr(&c.func));
            m.insert("args".into(), Value::Array(c.args.iter().map(expr).collect()));
            Value::Object(m)
        }
        Expr::Cast(c) => {
            let mut m = node("Cast", sp);
            m.insert("expr".into(), expr(&c.expr));
            m.insert("ty".into(), json!(toks(&c.ty)));
            Value::Object(m)
        }
        Expr::Closure(c) => {
            let mut m = node("Closure", sp);
            m.insert("params".into(), Value::Array(c.inputs.iter().map(pat).collect()));
            m.insert("body".into(), expr(&c.body));
            m.insert("move".into(), json!(c.capture.is_some()));
            Value::Object(m)
        }
        Expr::Continue(c) => {
            let mut m = node("Continue", sp);
            m.insert("label".into(), lifetime(&c.label));
            Value::Object(m)
        }
        Expr::Field(f) => {
            let mut m = node("Field", sp);
            m.insert("base".into(), expr(&f.base));
            m.insert("member".into(), member(&f.member));
            Value::Object(m)
        }
        Expr::ForLoop(f) => {
            let mut m = node("ForLoop", sp);
            m.insert("label".into(), label(&f.label));
            m.insert("pat".into(), pat(&f.pat));
            m.insert("iter".into(), expr(&f.expr));
            m.insert("body".into(), block(&f.body));
            Value::Object(m)
        }
        Expr::If(i) => {
            let mut m = node("If", sp);
            m.insert("cond".into(), expr(&i.cond));
            m.insert("then".into(), block(&i.then_branch));
            m.insert(
                "else".into(),
                match &i.else_branch {
                    Some((_, e)) => expr(e),
                    None => Value::Null,
                },
            );
            Value::Object(m)
        }
        Expr::Index(i) => {
            let mut m = node("Index", sp);
            m.insert("base".into(), expr(&i.expr));
            m.insert("index".into(), expr(&i.index));
            Value::Object(m)
        }
        Expr::Let(l) => {
            let mut m = node("Let", sp);
            m.insert("pat".into(), pat(&l.pat));
            m.insert("expr".into(), expr(&l.expr));
            Value::Object(m)
        }
        Expr::Lit(l) => lit(&l.lit),
        Expr::Loop(l) => {
            let mut m = node("Loop", sp);
            m.insert("label".into(), label(&l.label));
            m.insert("body".into(), block(&l.body));
            Value::Object(m)
        }
        Expr::Macro(mac) => macro_node(&mac.mac, sp),
        Expr::Match(mt) => {
            let mut m = node("Match", sp);
            m.insert("scrut".into(), expr(&mt.expr));
            let mut arms = vec![];
            for a in &mt.arms {
                let mut am = node("Arm", a.span());
                am.insert("pat".into(), pat(&a.pat));
                am.insert(
                    "guard".into(),
                    match &a.guard {
                        Some((_, g)) => expr(g),
                        None => Value::Null,
                    },
                );
                am.insert("body".into(), expr(&a.body));
                arms.push(Value::Object(am));
            }
            m.insert("arms".into(), Value::Array(arms));
            Value::Object(m)
        }
        Expr::MethodCall(mc) => {
            let mut m = node("MethodCall", sp);
            m.insert("recv".into(), expr(&mc.receiver));
            m.insert("method".into(), json!(mc.method.to_string()));
            m.insert(
                "turbofish".into(),
                match &mc.turbofish {
                    Some(t) => json!(toks(t)),
                    None => Value::Null,
                },
            );
            m.insert("args".into(), Value::Array(mc.args.iter().map(expr).collect()));
            let ms = mc.method.span().start();
            m.insert("ml".into(), json!(ms.line));
            m.insert("mc".into(), json!(ms.column));
            Value::Object(m)
        }
        Expr::Path(p) => {
            let mut m = node("Path", sp);
            m.insert("path".into(), json!(path_str(&p.path)));
            let g = path_generics(&p.path);
            if g.as_array().map(|a| !a.is_empty()).unwrap_or(false) {
                m.insert("generics".into(), g);
            }
            if let Some(q) = &p.qself {
                m.insert("qself".into(), json!(toks(&q.ty)));
            }
            Value::Object(m)
        }
        Expr::Range(r) => {
            let mut m = node("Range", sp);
            m.insert("start".into(), opt_expr(&r.start));
            m.insert("end".into(), opt_expr(&r.end));
            m.insert(
                "closed".into(),
                json!(matches!(r.limits, RangeLimits::Closed(_))),
            );
            Value::Object(m)
        }
        Expr::Reference(r) => {
            let mut m = node("Ref", sp);
            m.insert("mut".into(), json!(r.mutability.is_some()));
            m.insert("expr".into(), expr(&r.expr));
            Value::Object(m)
        }
        Expr::Repeat(r) => {
            let mut m = node("Repeat", sp);
            m.insert("expr".into(), expr(&r.expr));
            m.insert("len".into(), expr(&r.len));
            Value::Object(m)
        }
        Expr::Return(r) => {
            let mut m = node("Return", sp);
            m.insert("expr".into(), opt_expr(&r.expr));
            Value::Object(m)
        }
        Expr::Struct(s) => {
            let mut m = node("Struct", sp);
            m.insert("path".into(), json!(path_str(&s.path)));
            let mut fields = vec![];
            for f in &s.fields {
                let mut fm = node("FieldInit", f.span());
                fm.insert("name".into(), member(&f.member));
                fm.insert("shorthand".into(), json!(f.colon_token.is_none()));
                fm.insert("expr".into(), expr(&f.expr));
                fields.push(Value::Object(fm));
            }
            m.insert("fields".into(), Value::Array(fields));
            m.insert("rest".into(), opt_expr(&s.rest));
            Value::Object(m)
        }
        Expr::Try(t) => {
            let mut m = node("Try", sp);
            m.insert("expr".into(), expr(&t.expr));
            Value::Object(m)
        }
        Expr::Tuple(t) => {
            let mut m = node("Tuple", sp);
            m.insert("elems".into(), Value::Array(t.elems.iter().map(expr).collect()));
            Value::Object(m)
        }
        Expr::Unary(u) => {
            let mut m = node("Unary", sp);
            m.insert("op".into(), json!(toks(&u.op)));
            m.insert("expr".into(), expr(&u.expr));
            Value::Object(m)
        }
        Expr::Unsafe(u) => {
            let mut m = node("Unsafe", sp);
            m.insert("body".into(), block(&u.block));
            Value::Object(m)
        }
        Expr::While(w) => {
            let mut m = node("While", sp);
            m.insert("label".into(), label(&w.label));
            m.insert("cond".into(), expr(&w.cond));
            m.insert("body".into(), block(&w.body));
            Value::Object(m)
        }
        other => {
            let mut m = node("Other", sp);
            m.insert("tokens".into(), json!(toks(other)));
            Value::Object(m)
        }
    }
}

fn pat(p: &Pat) -> Value {
    let sp = p.span();
    match p {
        Pat::Paren(p) => pat(&p.pat),
        Pat::Ident(i) => {
            let mut m = node("PIdent", sp);
            m.insert("name".into(), json!(i.ident.to_string()));
            m.insert("by_ref".into(), json!(i.by_ref.is_some()));
            m.insert("mut".into(), json!(i.mutability.is_some()));
            m.insert(
                "sub".into(),
                match &i.subpat {
                    Some((_, s)) => pat(s),
                    None => Value::Null,
                },
            );
            Value::Object(m)
        }
        Pat::Wild(_) => Value::Object(node("PWild", sp)),
        Pat::Rest(_) => Value::Object(node("PRest", sp)),
        Pat::Path(pp) => {
            let mut m = node("PPath", sp);
            m.insert("path".into(), json!(path_str(&pp.path)));
            Value::Object(m)
        }
        Pat::Struct(s) => {
            let mut m = node("PStruct", sp);
            m.insert("path".into(), json!(path_str(&s.path)));
            let mut fields = vec![];
            for f in &s.fields {
                let mut fm = node("PField", f.span());
                fm.insert("name".into(), member(&f.member));
                fm.insert("shorthand".into(), json!(f.colon_token.is_none()));
                fm.insert("pat".into(), pat(&f.pat));
                fields.push(Value::Object(fm));
            }
            m.insert("fields".into(), Value::Array(fields));
            m.insert("rest".into(), json!(s.rest.is_some()));
            Value::Object(m)
        }
        Pat::TupleStruct(t) => {
            let mut m = node("PTupleStruct", sp);
            m.insert("path".into(), json!(path_str(&t.path)));
            m.insert("elems".into(), Value::Array(t.elems.iter().map(pat).collect()));
            Value::Object(m)
        }
        Pat::Tuple(t) => {
            let mut m = node("PTuple", sp);
            m.insert("elems".into(), Value::Array(t.elems.iter().map(pat).collect()));
            Value::Object(m)
        }
        Pat::Slice(t) => {
            let mut m = node("PSlice", sp);
            m.insert("elems".into(), Value::Array(t.elems.iter().map(pat).collect()));
            Value::Object(m)
        }
        Pat::Reference(r) => {
            let mut m = node("PRef", sp);
            m.insert("pat".into(), pat(&r.pat));
            Value::Object(m)
        }
        Pat::Or(o) => {
            let mut m = node("POr", sp);
            m.insert("cases".into(), Value::Array(o.cases.iter().map(pat).collect()));
            Value::Object(m)
        }
        Pat::Lit(l) => {
            let mut m = node("PLit", sp);
            m.insert("lit".into(), lit(&l.lit));
            Value::Object(m)
        }
        Pat::Type(t) => {
            let mut m = node("PType", sp);
            m.insert("pat".into(), pat(&t.pat));
            m.insert("ty".into(), json!(toks(&t.ty)));
            Value::Object(m)
        }
        other => {
            let mut m = node("POther", sp);
            m.insert("tokens".into(), json!(toks(other)));
            Value::Object(m)
        }
    }
}

fn vis(v: &Visibility) -> Value {
    match v {
        Visibility::Public(_) => json!("pub"),
        Visibility::Restricted(r) => json!(format!("pub({})", path_str(&r.path))),
        Visibility::Inherited => json!(""),
    }
}

fn fields(f: &Fields) -> Value {
    let mut out = vec![];
    for (i, fd) in f.iter().enumerate() {
        let mut m = node("FieldDef", fd.span());
        m.insert(
            "name".into(),
            match &fd.ident {
                Some(id) => json!(id.to_string()),
                None => json!(i.to_string()),
            },
        );
        m.insert("ty".into(), json!(toks(&fd.ty)));
        m.insert("vis".into(), vis(&fd.vis));
        out.push(Value::Object(m));
    }
    Value::Array(out)
}

fn sig(m: &mut Map<String, Value>, s: &Signature) {
    m.insert("name".into(), json!(s.ident.to_string()));
    m.insert("generics".into(), json!(toks(&s.generics)));
    let mut params = vec![];
    for a in &s.inputs {
        match a {
            FnArg::Receiver(r) => {
                let mut pm = node("Param", r.span());
                pm.insert("name".into(), json!("self"));
                pm.insert("ty".into(), json!(toks(&r.ty)));
                pm.insert("pat".into(), Value::Null);
                params.push(Value::Object(pm));
            }
            FnArg::Typed(t) => {
                let mut pm = node("Param", t.span());
                let name = match &*t.pat {
                    Pat::Ident(i) => i.ident.to_string(),
                    _ => String::new(),
                };
                pm.insert("name".into(), json!(name));
                pm.insert("pat".into(), pat(&t.pat));
                pm.insert("ty".into(), json!(toks(&t.ty)));
                params.push(Value::Object(pm));
            }
        }
    }
    m.insert("params".into(), Value::Array(params));
    m.insert(
        "ret".into(),
        match &s.output {
            ReturnType::Default => Value::Null,
            ReturnType::Type(_, t) => json!(toks(t)),
        },
    );
}

fn item(i: &Item) -> Value {
    let sp = i.span();
    match i {
        Item::Fn(f) => {
            let mut m = node("Fn", sp);
            sig(&mut m, &f.sig);
            m.insert("vis".into(), vis(&f.vis));
            m.insert("attrs".into(), attrs(&f.attrs));
            m.insert("cfg_test".into(), json!(is_cfg_test(&f.attrs)));
            m.insert("body".into(), block(&f.block));
            Value::Object(m)
        }
        Item::Impl(im) => {
            let mut m = node("Impl", sp);
            m.insert("self_ty".into(), json!(toks(&im.self_ty)));
            m.insert(
                "trait".into(),
                match &im.trait_ {
                    Some((_, p, _)) => json!(toks(p)),
                    None => Value::Null,
                },
            );
            m.insert("generics".into(), json!(toks(&im.generics)));
            m.insert("cfg_test".into(), json!(is_cfg_test(&im.attrs)));
            let mut items = vec![];
            for ii in &im.items {
                match ii {
                    ImplItem::Fn(f) => {
                        let mut fm = node("Fn", f.span());
                        sig(&mut fm, &f.sig);
                        fm.insert("vis".into(), vis(&f.vis));
                        fm.insert("attrs".into(), attrs(&f.attrs));
                        fm.insert("cfg_test".into(), json!(is_cfg_test(&f.attrs)));
                        fm.insert("body".into(), block(&f.block));
                        items.push(Value::Object(fm));
                    }
                    ImplItem::Type(t) => {
                        let mut tm = node("AssocType", t.span());
                        tm.insert("name".into(), json!(t.ident.to_string()));
                        tm.insert("ty".into(), json!(toks(&t.ty)));
                        items.push(Value::Object(tm));
                    }
                    ImplItem::Const(c) => {
                        let mut cm = node("Const", c.span());
                        cm.insert("name".into(), json!(c.ident.to_string()));
                        cm.insert("ty".into(), json!(toks(&c.ty)));
                        cm.insert("expr".into(), expr(&c.expr));
                        items.push(Value::Object(cm));
                    }
                    other => {
                        let mut om = node("OtherItem", other.span());
                        om.insert("tokens".into(), json!(toks(other)));
                        items.push(Value::Object(om));
                    }
                }
            }
            m.insert("items".into(), Value::Array(items));
            Value::Object(m)
        }
        Item::Struct(s) => {
            let mut m = node("StructDef", sp);
            m.insert("name".into(), json!(s.ident.to_string()));
            m.insert("vis".into(), vis(&s.vis));
            m.insert("derives".into(), derives(&s.attrs));
            m.insert("attrs".into(), attrs(&s.attrs));
            m.insert("cfg_test".into(), json!(is_cfg_test(&s.attrs)));
            m.insert("fields".into(), fields(&s.fields));
            m.insert("tuple".into(), json!(matches!(s.fields, Fields::Unnamed(_))));
            Value::Object(m)
        }
        Item::Enum(e) => {
            let mut m = node("EnumDef", sp);
            m.insert("name".into(), json!(e.ident.to_string()));
            m.insert("vis".into(), vis(&e.vis));
            m.insert("derives".into(), derives(&e.attrs));
            m.insert("attrs".into(), attrs(&e.attrs));
            m.insert("cfg_test".into(), json!(is_cfg_test(&e.attrs)));
            let mut vs = vec![];
            for v in &e.variants {
                let mut vm = node("Variant", v.span());
                vm.insert("name".into(), json!(v.ident.to_string()));
                vm.insert("fields".into(), fields(&v.fields));
                vm.insert("tuple".into(), json!(matches!(v.fields, Fields::Unnamed(_))));
                vm.insert("attrs".into(), attrs(&v.attrs));
                vs.push(Value::Object(vm));
            }
            m.insert("variants".into(), Value::Array(vs));
            Value::Object(m)
        }
        Item::Const(c) => {
            let mut m = node("Const", sp);
            m.insert("name".into(), json!(c.ident.to_string()));
            m.insert("vis".into(), vis(&c.vis));
            m.insert("ty".into(), json!(toks(&c.ty)));
            m.insert("expr".into(), expr(&c.expr));
            m.insert("cfg_test".into(), json!(is_cfg_test(&c.attrs)));
            Value::Object(m)
        }
        Item::Static(c) => {
            let mut m = node("Static", sp);
            m.insert("name".into(), json!(c.ident.to_string()));
            m.insert("ty".into(), json!(toks(&c.ty)));
            m.insert("expr".into(), expr(&c.expr));
            m.insert("cfg_test".into(), json!(is_cfg_test(&c.attrs)));
            Value::Object(m)
        }
        Item::Type(t) => {
            let mut m = node("TypeAlias", sp);
            m.insert("name".into(), json!(t.ident.to_string()));
            m.insert("vis".into(), vis(&t.vis));
            m.insert("ty".into(), json!(toks(&t.ty)));
            m.insert("generics".into(), json!(toks(&t.generics)));
            Value::Object(m)
        }
        Item::Use(u) => {
            let mut m = node("Use", sp);
            m.insert("tree".into(), json!(toks(&u.tree)));
            m.insert("vis".into(), vis(&u.vis));
            m.insert("cfg_test".into(), json!(is_cfg_test(&u.attrs)));
            Value::Object(m)
        }
        Item::Mod(md) => {
            let mut m = node("Mod", sp);
            m.insert("name".into(), json!(md.ident.to_string()));
            m.insert("vis".into(), vis(&md.vis));
            m.insert("cfg_test".into(), json!(is_cfg_test(&md.attrs)));
            m.insert("inline".into(), json!(md.content.is_some()));
            let mut items = vec![];
            if let Some((_, its)) = &md.content {
                // test modules are dropped on purpose: they do not ship
                if !is_cfg_test(&md.attrs) {
                    for it in its {
                        items.push(item(it));
                    }
                }
            }
            m.insert("items".into(), Value::Array(items));
            Value::Object(m)
        }
        Item::Macro(mac) => {
            let mut m = node("ItemMacro", sp);
            m.insert("mac".into(), macro_node(&mac.mac, sp));
            Value::Object(m)
        }
        other => {
            let mut m = node("OtherItem", sp);
            m.insert("tokens".into(), json!(toks(other)));
            Value::Object(m)
        }
    }
}

fn main() {
    let args: Vec<String> = std::env::args().collect();
    if args.len() < 3 {
        eprintln!("usage: srcfacts OUT.json FILE.rs...");
        std::process::exit(2);
    }
    let mut files = Map::new();
    for path in &args[2..] {
        let src = match std::fs::read_to_string(path) {
            Ok(s) => s,
            Err(e) => {
                eprintln!("srcfacts: cannot read {path}: {e}");
                std::process::exit(2);
            }
        };
        let file = match syn::parse_file(&src) {
            Ok(f) => f,
            Err(e) => {
                let s = e.span().start();
                eprintln!("srcfacts: parse error in {path}:{}:{}: {e}", s.line, s.column);
                std::process::exit(3);
            }
        };
        let items: Vec<Value> = file.items.iter().map(item).collect();
        files.insert(path.clone(), json!({"items": items, "attrs": attrs(&file.attrs)}));
    }
    let out = Value::Object(files);
    std::fs::write(&args[1], serde_json::to_string(&out).unwrap()).unwrap();
}
