// Positive control for the expected-zero rules HASHORD / AMBIENT / SPANSRC-like checks: every construct
// below MUST be flagged by the same driver + rules on every run, otherwise the rules are blind.
use std::collections::{HashMap, HashSet};

fn hash_order() -> Vec<u32> {
    let mut m: HashMap<u32, u32> = HashMap::new();
    m.insert(1, 2);
    let mut out = vec![];
    for (k, _) in &m {
        out.push(*k);
    }
    let s: HashSet<u32> = m.keys().copied().collect();
    out.extend(s.iter());
    out
}

fn ambient() -> u64 {
    let t = std::time::SystemTime::now();
    let e = std::env::var("HOME").unwrap_or_default();
    let p = std::process::id();
    let x = 7u32;
    let addr = &x as *const u32 as usize;
    t.elapsed().map(|d| d.as_secs()).unwrap_or(0) + e.len() as u64 + p as u64 + addr as u64
}

// Positive control for ARENA-IMMUT: a node of an `Expr` arena edited in place.
#[derive(Clone, Debug)]
enum Expr {
    Terminal { fallback: usize },
}

fn edit_in_place(arena: &mut Vec<Expr>) -> usize {
    if let Expr::Terminal { fallback } = &mut arena[0] {
        *fallback = 1;
    }
    if let Some(Expr::Terminal { fallback }) = arena.get_mut(0) {
        *fallback += 1;
    }
    arena.len()
}

fn main() {
    let mut arena = vec![Expr::Terminal { fallback: 0 }];
    println!("{:?} {} {}", hash_order(), ambient(), edit_in_place(&mut arena));
}
