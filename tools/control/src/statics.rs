// Positive control for the GLOBALSTATE rule (parsed by srcfacts only, never compiled into the control binary):
// each construct below must be reported on every run.
use std::sync::OnceLock;

fn cached_table(shell: u8) -> Vec<u8> {
    static TABLE: OnceLock<Vec<u8>> = OnceLock::new();
    TABLE.get_or_init(|| vec![shell]).clone()
}

static mut COUNTER: usize = 0;

thread_local! {
    static SEEN: std::cell::RefCell<Vec<u8>> = std::cell::RefCell::new(Vec::new());
}
