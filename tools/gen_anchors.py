#!/usr/bin/env python3
"""Writes tables/anchors.json from the current /repo: the reference names, signatures and feature sets used by vlib/canon.py to
recognise a renamed function.  Run after a change to /repo that is meant to stay (a `fix:` commit); never run by a check."""
import json, os, sys
sys.path.insert(0, os.path.dirname(os.path.dirname(os.path.abspath(__file__))))
from vlib import core, canon

repo = core.get_repo()
assert not getattr(repo, "renames", None), "the tree already differs from the reference by renames: regenerate from a clean tree"
snap = canon.snapshot(repo)
snap["__types__"] = canon.snapshot_types(repo)
snap["__aliases__"] = sorted({a["name"] for a in repo.aliases.values()})
# every method name called anywhere in the reference tree: a new inherent method whose name is NOT among them cannot be mistaken for a
# std / dependency method when its calls on receivers other than `self` are read in place (canon.inline_new_helpers)
from vlib import ast as A
snap["__methods__"] = sorted({n["method"] for f in repo.fns.values() for n in A.walk(f.body) if n["k"] == "MethodCall"})
json.dump(snap, open(canon.TABLE, "w"), indent=0, sort_keys=True)
print(len(repo.fns), "functions recorded in", canon.TABLE)
