#!/usr/bin/env python3
"""Writes tables/anchors.json from the current /repo: the reference names, signatures and feature sets used by vlib/canon.py to
recognise a renamed function.  Run after a change to /repo that is meant to stay (a `fix:` commit); never run by a check."""
import json, os, sys
sys.path.insert(0, os.path.dirname(os.path.dirname(os.path.abspath(__file__))))
from vlib import core, canon

repo = core.get_repo()
assert not getattr(repo, "renames", None), "the tree already differs from the reference by renames: regenerate from a clean tree"
snap = canon.snapshot(repo)
snap["__types__"] = canon.snapshot_types(repo)
snap["__aliases__"] = sorted({a["name"] for a in repo.aliases.values()})
json.dump(snap, open(canon.TABLE, "w"), indent=0, sort_keys=True)
print(len(repo.fns), "functions recorded in", canon.TABLE)
