#!/bin/bash
# confirm_seed.sh <ID> <mN> : independently re-verify a sub-agent's seeded defect in its scratch worktree /tmp/seed/<ID>/wt:
#   pristine: demo passes; with patch: builds, the 59 existing tests pass, demo fails.  Prints one summary line.
ID=$1; M=$2; BASE=${3:-/tmp/seed}; D=$BASE/$ID/out/$M; WT=$BASE/$ID/wt
[ -f "$D/patch.diff" ] || { echo "$ID/$M: no patch"; exit 2; }
cd "$WT" || exit 2
git checkout -q -- . ; git clean -fdq -e target
git checkout -q --detach "$(git -C /repo rev-parse HEAD)"   # always confirm against /repo's current HEAD
export CARGO_NET_OFFLINE=true
cargo build --offline -q 2>/dev/null || { echo "$ID/$M: pristine build failed"; exit 2; }
( bash "$D/demo.sh" "$WT" ) >$BASE/$ID/$M.pristine.log 2>&1; p=$?
git checkout -q -- . ; git clean -fdq -e target
git apply "$D/patch.diff" || { echo "$ID/$M: patch does not apply"; exit 2; }
b=ok; cargo build --offline -q 2>$BASE/$ID/$M.build.log || b=FAIL
t=$(cargo test --offline 2>&1 | grep -E "^test result" | awk '{p+=$4; f+=$6} END {print p"/"f}')
( bash "$D/demo.sh" "$WT" ) >$BASE/$ID/$M.mutant.log 2>&1; m=$?
git checkout -q -- . ; git clean -fdq -e target
v=CONFIRMED; { [ "$p" = 0 ] && [ "$m" != 0 ] && [ "$b" = ok ] && [ "${t%%/*}" = 59 ] && [ "${t##*/}" = 0 ]; } || v=REJECTED
echo "$ID/$M: pristine_demo_rc=$p mutant_build=$b tests(pass/fail)=$t mutant_demo_rc=$m => $v"
