#!/usr/bin/env python3
"""Behaviour-preserving refactorings written by sub-agents (each verified by its author: tests pass, outputs / bash behaviour identical).
  selftest/refac.py import            -- copy finished ones from /tmp/refac/<area>/out/rK to /verif/refactorings/<area>-rK
  selftest/refac.py run [substr]      -- apply each to a scratch copy of /repo and run every registered check: ANY alarm is a false alarm
Not part of any registered command."""
import glob, json, os, shutil, subprocess, sys
V = os.path.dirname(os.path.dirname(os.path.abspath(__file__)))
DST = os.path.join(V, "refactorings")
SCRATCH = "/tmp/vrf_repo"


def do_import():
    """out/ -> <area>-rK (wave 1), out3/ -> w3<area>-rK, out4/ -> w4<area>-rK (wave 2 used /tmp/refac/w2/<area> -> w2<area>-rK)"""
    os.makedirs(DST, exist_ok=True)
    for sub, pre in (("out", ""), ("out3", "w3"), ("out4", "w4")):
        for m in sorted(glob.glob(f"/tmp/refac/*/{sub}/r*/meta.json")):
            d = os.path.dirname(m)
            area = d.split("/")[3]
            name = f"{pre}{area}-{os.path.basename(d)}"
            dst = os.path.join(DST, name)
            if os.path.exists(dst) or not os.path.exists(os.path.join(d, "patch.diff")):
                continue
            os.makedirs(dst)
            shutil.copy(os.path.join(d, "patch.diff"), dst)
            shutil.copy(m, dst)
            print("imported", name)
    for m in sorted(glob.glob("/tmp/refac5/*/out/r*/meta.json")):   # wave 5 -> w5<area>-rK
        d = os.path.dirname(m)
        name = f"w5{d.split('/')[3]}-{os.path.basename(d)}"
        dst = os.path.join(DST, name)
        if os.path.exists(dst) or not os.path.exists(os.path.join(d, "patch.diff")):
            continue
        os.makedirs(dst)
        shutil.copy(os.path.join(d, "patch.diff"), dst)
        shutil.copy(m, dst)
        print("imported", name)


def fresh(scratch):
    if os.path.exists(scratch):
        shutil.rmtree(scratch)
    os.makedirs(scratch)
    for f in ("Cargo.toml", "Cargo.lock", "build.rs"):
        shutil.copy(os.path.join("/repo", f), scratch)
    shutil.copytree("/repo/src", os.path.join(scratch, "src"))


def one(args):
    d, reg = args
    import multiprocessing
    w = multiprocessing.current_process().name.replace("ForkPoolWorker-", "w")
    scratch = f"/tmp/vrf_{w}_repo"
    env = dict(os.environ, VERIF_REPO=scratch, VERIF_OUT_DIR=f"/tmp/vrf_{w}_out", VERIF_WORK_DIR=f"/tmp/vrf_{w}_work", VERIF_CACHE_DIR=f"/tmp/vrf_{w}_cache")
    name = os.path.basename(d)
    fresh(scratch)
    a = subprocess.run(["patch", "-p1", "-s", "-d", scratch, "-i", os.path.join(d, "patch.diff")], stdout=subprocess.PIPE, stderr=subprocess.STDOUT, text=True)
    if a.returncode != 0:
        print(f"{name}: patch does not apply", flush=True)
        return name, {"error": "patch does not apply"}
    alarms = {}
    for p in reg:
        r = subprocess.run([os.path.join(V, "check"), p], env=env, stdout=subprocess.PIPE, stderr=subprocess.STDOUT, text=True, cwd=V)
        if r.returncode != 0:
            alarms[p] = [l.strip()[:260] for l in r.stdout.splitlines() if l.startswith("  rule=")] or [f"rc={r.returncode}: " + r.stdout[-200:]]
    print(f"{name:14s} " + ("silent" if not alarms else "ALARM " + "; ".join(f"{p}[{len(k)}] {k[0][:150]}" for p, k in alarms.items())), flush=True)
    shutil.rmtree(scratch, ignore_errors=True)
    return name, {"alarms": alarms}


def main():
    if len(sys.argv) < 2 or sys.argv[1] == "import":
        return do_import()
    import multiprocessing
    args = [a for a in sys.argv[2:] if not a.startswith("--")]
    jobs = next((int(a.split("=")[1]) for a in sys.argv if a.startswith("--jobs=")), 4)
    pat = args[0] if args else ""
    reg = [c["property_id"] for c in json.load(open(os.path.join(V, "MANIFEST.json")))["checks"]]
    rp = os.path.join(V, "selftest", "refac_results.json")
    results = json.load(open(rp)) if os.path.exists(rp) else {}
    todo = [(d, reg) for d in sorted(glob.glob(os.path.join(DST, "*"))) if not pat or pat in os.path.basename(d)]
    with multiprocessing.Pool(jobs) as pool:
        for name, r in pool.imap_unordered(one, todo):
            results[name] = r
            json.dump(results, open(rp, "w"), indent=1, sort_keys=True)
    n_alarm = sum(1 for r in results.values() if r.get("alarms"))
    print(f"{len(results)} refactorings, {n_alarm} with an alarm")


if __name__ == "__main__":
    sys.exit(main() or 0)
