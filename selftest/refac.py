#!/usr/bin/env python3
"""Behaviour-preserving refactorings written by sub-agents (each verified by its author: tests pass, outputs / bash behaviour identical).
  selftest/refac.py import            -- copy finished ones from /tmp/refac/<area>/out/rK to /verif/refactorings/<area>-rK
  selftest/refac.py run [substr]      -- apply each to a scratch copy of /repo and run every registered check: ANY alarm is a false alarm
Not part of any registered command."""
import glob, json, os, shutil, subprocess, sys
V = os.path.dirname(os.path.dirname(os.path.abspath(__file__)))
DST = os.path.join(V, "refactorings")
SCRATCH = "/tmp/vrf_repo"


def do_import():
    os.makedirs(DST, exist_ok=True)
    for m in sorted(glob.glob("/tmp/refac/*/out/r*/meta.json")):
        d = os.path.dirname(m)
        area = d.split("/")[3]
        name = f"{area}-{os.path.basename(d)}"
        dst = os.path.join(DST, name)
        if os.path.exists(dst) or not os.path.exists(os.path.join(d, "patch.diff")):
            continue
        os.makedirs(dst)
        shutil.copy(os.path.join(d, "patch.diff"), dst)
        shutil.copy(m, dst)
        print("imported", name)


def fresh():
    if os.path.exists(SCRATCH):
        shutil.rmtree(SCRATCH)
    os.makedirs(SCRATCH)
    for f in ("Cargo.toml", "Cargo.lock", "build.rs"):
        shutil.copy(os.path.join("/repo", f), SCRATCH)
    shutil.copytree("/repo/src", os.path.join(SCRATCH, "src"))


def main():
    if len(sys.argv) < 2 or sys.argv[1] == "import":
        return do_import()
    pat = sys.argv[2] if len(sys.argv) > 2 else ""
    reg = [c["property_id"] for c in json.load(open(os.path.join(V, "MANIFEST.json")))["checks"]]
    env = dict(os.environ, VERIF_REPO=SCRATCH, VERIF_OUT_DIR="/tmp/vrf_out", VERIF_WORK_DIR="/tmp/vrf_work", VERIF_CACHE_DIR="/tmp/vrf_cache")
    results = {}
    rp = os.path.join(V, "selftest", "refac_results.json")
    if os.path.exists(rp):
        results = json.load(open(rp))
    for d in sorted(glob.glob(os.path.join(DST, "*"))):
        name = os.path.basename(d)
        if pat and pat not in name:
            continue
        fresh()
        a = subprocess.run(["patch", "-p1", "-s", "-d", SCRATCH, "-i", os.path.join(d, "patch.diff")], stdout=subprocess.PIPE, stderr=subprocess.STDOUT, text=True)
        if a.returncode != 0:
            print(f"{name}: patch does not apply")
            results[name] = {"error": "patch does not apply"}
            continue
        alarms = {}
        for p in reg:
            r = subprocess.run([os.path.join(V, "check"), p], env=env, stdout=subprocess.PIPE, stderr=subprocess.STDOUT, text=True, cwd=V)
            if r.returncode != 0:
                alarms[p] = [l.strip()[:260] for l in r.stdout.splitlines() if l.startswith("  rule=")] or [f"rc={r.returncode}: " + r.stdout[-200:]]
        results[name] = {"alarms": alarms}
        print(f"{name:14s} " + ("silent" if not alarms else "ALARM " + "; ".join(f"{p}[{len(k)}] {k[0][:150]}" for p, k in alarms.items())))
        json.dump(results, open(rp, "w"), indent=1, sort_keys=True)
    if os.path.exists(SCRATCH):
        shutil.rmtree(SCRATCH)


if __name__ == "__main__":
    sys.exit(main() or 0)
