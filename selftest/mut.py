#!/usr/bin/env python3
"""Mutation self-test of the checkers (DESIGN section 8).  Not part of any registered command.

  selftest/mut.py list                  -- list the variants
  selftest/mut.py run [name-substring]  -- apply each variant to a scratch copy of /repo (outside /repo and /verif),
                                           run the named checks with VERIF_REPO pointing at the copy, report fired/silent

A variant is (name, file, old, new, expect) where expect maps property -> substring that must occur in a VIOLATION key
(or None: the check must stay silent = behaviour-preserving edit)."""
import json
import os
import shutil
import subprocess
import sys

V = os.path.dirname(os.path.dirname(os.path.abspath(__file__)))
SCRATCH = "/tmp/vst_repo"
sys.path.insert(0, os.path.dirname(os.path.abspath(__file__)))
from variants import VARIANTS  # noqa: E402


def fresh(scratch):
    if os.path.exists(scratch):
        shutil.rmtree(scratch)
    os.makedirs(scratch)
    for f in ("Cargo.toml", "Cargo.lock", "build.rs"):
        shutil.copy(os.path.join("/repo", f), scratch)
    shutil.copytree("/repo/src", os.path.join(scratch, "src"))


def run_check(prop, tag):
    env = dict(os.environ, VERIF_REPO=f"/tmp/vst_{tag}_repo", VERIF_OUT_DIR=f"/tmp/vst_{tag}_out", VERIF_WORK_DIR=f"/tmp/vst_{tag}_work", VERIF_CACHE_DIR=f"/tmp/vst_{tag}_cache")
    r = subprocess.run([os.path.join(V, "check"), prop], env=env, stdout=subprocess.PIPE, stderr=subprocess.STDOUT, text=True, cwd=V)
    keys = []
    for line in r.stdout.splitlines():
        if line.startswith("  rule="):
            keys.append(line.strip())
    return r.returncode, keys, r.stdout


def one(v):
    import multiprocessing
    tag = multiprocessing.current_process().name.replace("ForkPoolWorker-", "w").replace("MainProcess", "w0")
    scratch = f"/tmp/vst_{tag}_repo"
    out = []
    lines = []
    fresh(scratch)
    ok_apply = True
    for ed in v["edits"]:
        if ed[0] == "@revert":
            # reverse-apply one commit of /repo to the scratch copy (a recorded repair coming undone)
            d = subprocess.run(["git", "-C", "/repo", "diff", ed[1] + "^", ed[1], "--", "src"], stdout=subprocess.PIPE).stdout
            r = subprocess.run(["patch", "-R", "-p1", "-s", "-d", scratch], input=d, stdout=subprocess.PIPE, stderr=subprocess.STDOUT)
            if r.returncode != 0:
                ok_apply = False
                lines.append(f"!! {v['name']}: {ed[1]} does not reverse-apply")
                break
            continue
        if ed[0] == "@patch":
            # a seeded defect kept under /verif/seeded (written by an independent sub-agent)
            r = subprocess.run(["patch", "-p1", "-s", "-d", scratch, "-i", os.path.join(V, ed[1])], stdout=subprocess.PIPE, stderr=subprocess.STDOUT)
            if r.returncode != 0:
                ok_apply = False
                lines.append(f"!! {v['name']}: {ed[1]} does not apply")
                break
            continue
        f, old, new = ed[:3]
        every = len(ed) > 3 and ed[3] == "all"
        p = os.path.join(scratch, f)
        s = open(p).read()
        if s.count(old) < 1:
            ok_apply = False
            lines.append(f"!! {v['name']}: pattern not found in {f}")
            break
        s = s.replace(old, new) if every else s.replace(old, new, 1)
        open(p, "w").write(s)
    if not ok_apply:
        out.append((v["name"], "APPLY-FAILED", ""))
    else:
        for prop, want in v["expect"].items():
            rc, keys, txt = run_check(prop, tag)
            if want is None:
                verdict = "ok-silent" if rc == 0 else "FALSE-ALARM"
            else:
                hit = [k for k in keys if want in k]
                verdict = "ok-fired" if (rc == 1 and hit) else ("MISSED" if rc == 0 else ("fired-other" if rc == 1 else f"rc={rc}"))
            out.append((v["name"], prop, verdict))
            lines.append(f"{v['name']:55s} {prop}  {verdict}")
            if verdict not in ("ok-silent", "ok-fired"):
                lines.append("\n".join("      " + k[:220] for k in keys[:6]))
                if rc not in (0, 1):
                    lines.append(txt[-1500:])
    shutil.rmtree(scratch, ignore_errors=True)
    print("\n".join(lines), flush=True)
    return out


def main():
    import multiprocessing
    cmd = sys.argv[1] if len(sys.argv) > 1 else "list"
    args = [a for a in sys.argv[2:] if not a.startswith("--")]
    jobs = next((int(a.split("=")[1]) for a in sys.argv if a.startswith("--jobs=")), 1)
    pat = args[0] if args else ""
    if cmd == "list":
        for v in VARIANTS:
            print(v["name"], "->", v["expect"])
        return 0
    todo = [v for v in VARIANTS if not pat or pat in v["name"]]
    results = []
    if jobs > 1:
        with multiprocessing.Pool(jobs) as pool:
            for r in pool.imap_unordered(one, todo):
                results.extend(r)
    else:
        for v in todo:
            results.extend(one(v))
    bad = [r for r in results if r[2] not in ("ok-silent", "ok-fired")]
    print(f"\n{len(results)} runs, {len(bad)} not as expected")
    if not pat:
        with open(os.path.join(V, "selftest", "last_results.json"), "w") as f:
            json.dump(sorted(results), f, indent=1)
    return 1 if bad else 0


if __name__ == "__main__":
    sys.exit(main())
