#!/bin/sh
# Exercises the committed machinery the way it is used: caches wiped, offline environment, setup_cmd, then every
# registered quick command once with its evidence file removed. Prints one line per check; exit 1 if any check is not
# quiet (non-zero exit, a VIOLATION line, or no evidence rewritten). Run after every commit to /repo or /verif.
# Not part of any registered command. Logs go to a scratch directory outside /repo and /verif, removed at the end.
cd "$(dirname "$0")/.." || exit 2
export CARGO_NET_OFFLINE=true GOPROXY=off PIP_NO_INDEX=1 VERIF_SEED=1 VERIF_TIER="${VERIF_TIER:-quick}"
[ "$1" = "--keep-cache" ] || rm -rf .cache .work tools/*/target reports
LOG=$(mktemp -d)
./setup.sh > "$LOG/setup.log" 2>&1 || { tail -20 "$LOG/setup.log"; echo "setup FAILED"; rm -rf "$LOG"; exit 1; }
bad=0
for id in $(jq -r '.checks[].property_id' MANIFEST.json); do
  cmd=$(jq -r --arg id "$id" '.checks[] | select(.property_id==$id) | .'"${VERIF_TIER}"'_cmd' MANIFEST.json)
  ev=$(jq -r --arg id "$id" '.checks[] | select(.property_id==$id) | .evidence_file' MANIFEST.json)
  rm -f "$ev"
  sh -c "$cmd" > "$LOG/$id.log" 2>&1
  rc=$?
  v=$(grep -c '^VIOLATION' "$LOG/$id.log")
  e=no; [ -s "$ev" ] && e=yes
  st=quiet
  if [ "$rc" != 0 ] || [ "$v" != 0 ] || [ "$e" != yes ]; then st=NOT-QUIET; bad=1; grep -A1 '^VIOLATION' "$LOG/$id.log" | head -20; fi
  echo "$id rc=$rc violations=$v evidence=$e $st -- $(tail -1 "$LOG/$id.log")"
done
rm -rf "$LOG"
exit $bad
