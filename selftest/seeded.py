#!/usr/bin/env python3
"""Seeded defects produced by independent sub-agents (each saw only one property's text and a scratch worktree).

  selftest/seeded.py import                 -- copy confirmed seeds from /tmp/seed/<ID>/out/mN into /verif/seeded/<ID>-mN/
  selftest/seeded.py run [substr] [--props C01,C02|all|own] [--official]
        apply each kept patch to a scratch copy of /repo (default; evidence redirected) or, with --official, to /repo
        itself (git apply ... git checkout -- .), run the checks, and record which checks fire with which keys
        -> selftest/seeded_results.json and a table on stdout.
Not part of any registered command."""
import glob
import json
import os
import shutil
import subprocess
import sys

V = os.path.dirname(os.path.dirname(os.path.abspath(__file__)))
SEEDED = os.path.join(V, "seeded")
SCRATCH = "/tmp/vseed_repo"
OUT = "/tmp/vseed_out"


def registered():
    return [c["property_id"] for c in json.load(open(os.path.join(V, "MANIFEST.json")))["checks"]]


def do_import():
    os.makedirs(SEEDED, exist_ok=True)
    for conf in sorted(glob.glob("/tmp/seed/*/confirm.txt")) + sorted(glob.glob("/tmp/seed2/*/confirm.txt")) + sorted(glob.glob("/tmp/seed3/*/confirm.txt")) + sorted(glob.glob("/tmp/seed4/*/confirm.txt")) + sorted(glob.glob("/tmp/seed5/*/confirm.txt")):
        base = os.path.dirname(os.path.dirname(conf))
        rnd = {"seed2": "-r2", "seed3": "-r3", "seed4": "-r4", "seed5": "-r5"}.get(os.path.basename(base), "")
        for line in open(conf):
            if "=> CONFIRMED" not in line:
                continue
            tag = line.split(":")[0]
            pid, m = tag.split("/")
            src = f"{base}/{pid}/out/{m}"
            dst = os.path.join(SEEDED, f"{pid}{rnd}-{m}")
            if os.path.exists(dst):
                continue
            shutil.copytree(src, dst)
            meta_p = os.path.join(dst, "meta.json")
            try:
                meta = json.load(open(meta_p))
            except Exception:
                meta = {}
            meta["seed_id"] = os.path.basename(dst)
            meta["breaks_property"] = pid
            meta["confirmed_by_main_session"] = {
                "how": "selftest/confirm_seed.sh in the agent's scratch worktree of /repo HEAD: demo passes on the pristine tree; with patch.diff applied `cargo build --offline` succeeds, `cargo test --offline` gives 59 passed / 0 failed, the demo exits non-zero; worktree restored",
                "result": line.strip(),
            }
            json.dump(meta, open(meta_p, "w"), indent=1)
            print("imported", dst)


def fresh():
    if os.path.exists(SCRATCH):
        shutil.rmtree(SCRATCH)
    os.makedirs(SCRATCH)
    for f in ("Cargo.toml", "Cargo.lock", "build.rs"):
        shutil.copy(os.path.join("/repo", f), SCRATCH)
    shutil.copytree("/repo/src", os.path.join(SCRATCH, "src"))


def run_check(prop, env):
    r = subprocess.run([os.path.join(V, "check"), prop], env=env, stdout=subprocess.PIPE, stderr=subprocess.STDOUT, text=True, cwd=V)
    keys = [l.strip().split(" at ")[0] for l in r.stdout.splitlines() if l.startswith("  rule=")]
    return r.returncode, keys, r.stdout


def one(job):
    d, props, official, reg = job
    import multiprocessing
    tag = multiprocessing.current_process().name.replace("ForkPoolWorker-", "w").replace("MainProcess", "w0")
    scratch, out = f"/tmp/vseed_{tag}_repo", f"/tmp/vseed_{tag}_out"
    sid = os.path.basename(d)
    own = sid.split("-")[0]
    todo = reg if props == "all" else ([own] if props == "own" else props.split(","))
    todo = [p for p in todo if p in reg]
    patch = os.path.join(d, "patch.diff")
    env = dict(os.environ)
    if official:
        st = subprocess.run(["git", "-C", "/repo", "status", "--porcelain"], stdout=subprocess.PIPE, text=True).stdout.strip()
        if st:
            print("refusing: /repo is dirty", flush=True)
            return sid, {"error": "/repo dirty"}
        a = subprocess.run(["git", "-C", "/repo", "apply", patch])
        env["VERIF_OUT_DIR"] = out
    else:
        if os.path.exists(scratch):
            shutil.rmtree(scratch)
        os.makedirs(scratch)
        for f in ("Cargo.toml", "Cargo.lock", "build.rs"):
            shutil.copy(os.path.join("/repo", f), scratch)
        shutil.copytree("/repo/src", os.path.join(scratch, "src"))
        a = subprocess.run(["patch", "-p1", "-s", "-d", scratch, "-i", patch])
        env.update(VERIF_REPO=scratch, VERIF_OUT_DIR=out, VERIF_WORK_DIR=f"/tmp/vseed_{tag}_work", VERIF_CACHE_DIR=f"/tmp/vseed_{tag}_cache")
    if a.returncode != 0:
        print(f"{sid}: patch does not apply", flush=True)
        if official:
            subprocess.run(["git", "-C", "/repo", "checkout", "--", "."])
        return sid, {"error": "patch does not apply"}
    fired = {}
    try:
        for p in todo:
            rc, keys, txt = run_check(p, env)
            if rc == 1:
                fired[p] = keys
            elif rc != 0:
                fired[p] = [f"rc={rc}: " + txt[-300:]]
    finally:
        if official:
            subprocess.run(["git", "-C", "/repo", "checkout", "--", "."])
        else:
            shutil.rmtree(scratch, ignore_errors=True)
    caught = own in fired
    print(f"{sid:10s} own={'CAUGHT' if caught else ('n/a' if own not in reg else 'MISSED')}  fired: " + "; ".join(f"{p}[{len(k)}] {k[0][:90] if k else ''}" for p, k in fired.items()), flush=True)
    return sid, {"property": own, "caught_by_own_check": caught, "fired": fired, "checked": todo, "mode": "official" if official else "scratch"}


def main():
    import multiprocessing
    args = sys.argv[1:]
    if not args or args[0] == "import":
        return do_import()
    pat = ""
    props = "all"
    official = "--official" in args
    jobs = next((int(a.split("=")[1]) for a in args if a.startswith("--jobs=")), 1)
    rest = [a for a in args[1:] if a != "--official" and not a.startswith("--jobs=")]
    i = 0
    while i < len(rest):
        if rest[i] == "--props":
            props = rest[i + 1]
            i += 2
        else:
            pat = rest[i]
            i += 1
    if official:
        jobs = 1  # the patch is applied to /repo itself
    reg = registered()
    resp = os.path.join(V, "selftest", "seeded_results_official.json" if official else "seeded_results.json")
    results = json.load(open(resp)) if os.path.exists(resp) else {}
    todo = [(d, props, official, reg) for d in sorted(glob.glob(os.path.join(SEEDED, "*"))) if os.path.isdir(d) and (not pat or pat in os.path.basename(d))]
    if jobs > 1:
        with multiprocessing.Pool(jobs) as pool:
            for sid, r in pool.imap_unordered(one, todo):
                results[sid] = r
                json.dump(results, open(resp, "w"), indent=1, sort_keys=True)
    else:
        for j in todo:
            sid, r = one(j)
            results[sid] = r
            json.dump(results, open(resp, "w"), indent=1, sort_keys=True)
    n_own = sum(1 for r in results.values() if r.get("caught_by_own_check"))
    print(f"{len(results)} seeds in {os.path.basename(resp)}: {n_own} reported by the check of their own property")
    return 0


if __name__ == "__main__":
    sys.exit(main() or 0)
