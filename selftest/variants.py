"""Hand-made variants of /repo used to test the checkers in both directions (each still compiles)."""

def V(name, edits, expect):
    return {"name": name, "edits": edits, "expect": expect}

VARIANTS = [
    # ---------------- C02
    V("c02-many1-to-star", [("src/regex.rs", "let result = RegexNode::Cat(vec![subregex_id, starid]);\n            Ok(alloc(node_arena, result))", "Ok(starid)")], {"C02": "TR:regex::do_from_expr:Many1"}),
    V("c02-resolve-skips-optional", [("src/check.rs", """        Expr::Optional { child, span } => {
            let new_child = resolve_nonterminals(arena, child, vars, unused_nonterminals);
            if child == new_child {
                expr_id
            } else {
                alloc(
                    arena,
                    Expr::Optional {
                        child: new_child,
                        span,
                    },
                )
            }
        }""", """        Expr::Optional { .. } => expr_id,""")], {"C02": "TC:check::resolve_nonterminals:Optional.child", "C11": "TC:check::resolve_nonterminals:Optional.child"}),
    V("c02-swap-literal-description", [("src/regex.rs", "literal: *term,\n                description: *description,", "literal: description.unwrap_or(*term),\n                description: Some(*term),")], {"C02": "FF:regex::do_from_expr:Literal.literal"}),
    V("c02-sequence-reversed", [("src/regex.rs", """            let subregexes: Vec<RegexNodeId> = subexprs
                .iter()
                .map(|subexpr_id| {
                    do_from_expr(
                        *subexpr_id,
                        expr_arena,
                        node_arena,
                        input_from_position,
                        subwords,
                    )
                })
                .collect::<Result<_>>()?;

            let result = RegexNode::Cat(subregexes);""", """            let subregexes: Vec<RegexNodeId> = subexprs
                .iter()
                .rev()
                .map(|subexpr_id| {
                    do_from_expr(
                        *subexpr_id,
                        expr_arena,
                        node_arena,
                        input_from_position,
                        subwords,
                    )
                })
                .collect::<Result<_>>()?;

            let result = RegexNode::Cat(subregexes);""")], {"C02": "TR:regex::do_from_expr:Sequence"}),
    V("c02-fallback-level-off-by-one", [("src/check.rs", ".map(|(i, e)| do_propagate_fallback_levels(arena, *e, i))", ".map(|(i, e)| do_propagate_fallback_levels(arena, *e, i.min(1)))")], {"C02": "FF:check::do_propagate_fallback_levels:Fallback:level"}),
    V("c02-collapse-before-resolve", [("src/check.rs", """        let expr = resolve_nonterminals(
            &mut grammar.arena,
            expr,
            &nonterminal_definitions,
            &mut unused_nonterminals,
        );

        // Handle nested subwords originating in nonterminals expansion
        let expr = collapse_subwords(&mut grammar.arena, expr);
""", """        let expr = collapse_subwords(&mut grammar.arena, expr);
        let expr = resolve_nonterminals(
            &mut grammar.arena,
            expr,
            &nonterminal_definitions,
            &mut unused_nonterminals,
        );
""")], {"C02": "MPT:check::ValidGrammar::from_grammar:expr-lineage"}),
    V("c02-rename-locals-benign", [("src/check.rs", "let new_child = resolve_nonterminals(arena, child, vars, unused_nonterminals);\n            if child == new_child {\n                expr_id\n            } else {\n                alloc(\n                    arena,\n                    Expr::Subword {\n                        root_id: new_child,", "let replaced = resolve_nonterminals(arena, child, vars, unused_nonterminals);\n            if child == replaced {\n                expr_id\n            } else {\n                alloc(\n                    arena,\n                    Expr::Subword {\n                        root_id: replaced,")], {"C02": None, "C15": None}),
    # ---------------- C11
    V("c11-revert-fix-builtin-first", [("src/check.rs", "        builtin_specs.retain(|name, _| !nonterminal_definitions.contains_key(name));\n", "")], {"C11": "LOOKUP:check::specialize_nonterminals:plain-definition-overrides-builtin"}),
    V("c11-spec-recorded-for-any-shell", [("src/parse.rs", "            if Shell::from_str(shell_name, *shell_span)? != target_shell {\n                continue;\n            }\n", "            let _ = Shell::from_str(shell_name, *shell_span)?;\n")], {"C11": "shell-filter"}),
    V("c11-compadd-for-bash", [("src/check.rs", "                Shell::Bash => Expr::Command {\n                    cmd,\n                    zsh_compadd: false,", "                Shell::Bash => Expr::Command {\n                    cmd,\n                    zsh_compadd,")], {"C11": "Bash:Command.zsh_compadd"}),
    V("c11-builtin-arms-swapped", [("src/check.rs", 'cmd: ustr(r#"compgen -A file -- "$1""#),', 'cmd: ustr(r#"__fish_complete_path "$argv[1]""#),')], {"C11": "ARMS:check::make_builtin_specializations:Bash"}),
    # ---------------- C15
    V("c15-remove-after-lookup", [("src/check.rs", "            unused_nonterminals.remove(&nonterm);\n\n            let (cmd, zsh_compadd) = if let Some(ref mut spec) = user_specs.get_mut(&nonterm) {\n                spec.used = true;\n                (spec.cmd, true)", "            let (cmd, zsh_compadd) = if let Some(ref mut spec) = user_specs.get_mut(&nonterm) {\n                unused_nonterminals.remove(&nonterm);\n                spec.used = true;\n                (spec.cmd, true)")], {"C15": "BOOK:check::specialize_nonterminals:remove-on-every-reference"}),
    V("c15-warning-exits", [("src/main.rs", '            let err = WarnMsg::new("Unused").warning(&span, &input, "");\n            eprintln!("{}", err.into_string(usage_file_path, &span));\n        }', '            let err = WarnMsg::new("Unused").warning(&span, &input, "");\n            eprintln!("{}", err.into_string(usage_file_path, &span));\n        }\n        exit(1);')], {"C15": "WARN:main::aot:unused_nonterminals:harmless", "C06": "WARN:main::aot:unused_nonterminals:harmless"}),
    # ---------------- C08
    V("c08-revert-cycle-fix", [("src/check.rs", "    for vertex in dependency_graph.keys() {\n        if visited.contains(vertex) {\n            continue;\n        }", "    for vertex in dependency_graph.keys().take(0) {\n        if visited.contains(vertex) {\n            continue;\n        }")], {"C08": "CYCSEED"}),
    V("c08-subword-check-skips-alternative", [("src/check.rs", """        Expr::Alternative { children, .. } => {
            for child in children {
                do_check_subword_spaces(
                    arena,
                    *child,
                    nonterms,
                    nonterm_expn_trace,
                    within_subword,
                )?;
            }
            Ok(())
        }
        Expr::Fallback { children, .. } => {
            for child in children {
                do_check_subword_spaces(""", """        Expr::Alternative { .. } => Ok(()),
        Expr::Fallback { children, .. } => {
            for child in children {
                do_check_subword_spaces(""")], {"C08": "TC:check::do_check_subword_spaces:Alternative.children"}),
    V("c08-ambiguity-check-dropped", [("src/regex.rs", "        regex.check_ambiguities(subword_regexes)?;\n", "")], {"C08": "MPT:regex::Regex::from_valid_grammar:check_ambiguities"}),
    V("c08-varying-names-threshold", [("src/check.rs", "if commands.len() > 1 {", "if commands.len() > 2 {")], {"C08": "GUARD:check::ValidGrammar::from_grammar:VaryingCommandNames"}),
    # ---------------- C04
    V("c04-revert-compadd-isocov-fix", [("src/tables.rs", "        if left_compadd != right_compadd {\n            return false;\n        }\n\n", "        let _ = (left_compadd, right_compadd);\n")], {"C04": "ISOCOV"}),
    V("c04-fish-star-to-loses-base", [("src/fish.rs", "                .map(|(_, to)| format!(\"{}\", to + ARRAY_START))\n                .join(\" \");\n            writeln!(\n                buffer,\n                r#\"    set {scope_patch}star_transitions_to", "                .map(|(_, to)| format!(\"{}\", to))\n                .join(\" \");\n            writeln!(\n                buffer,\n                r#\"    set {scope_patch}star_transitions_to")], {"C04": "DIM:fish"}),
    V("c04-bash-star-cell-swapped", [("src/bash.rs", ".map(|(from, to)| format!(\"[{from}]={to}\"))", ".map(|(from, to)| format!(\"[{to}]={from}\"))")], {"C04": "ROLE:bash::write_match_transitions"}),
    V("c04-fish-subword-tables-wrong-base", [("src/fish.rs", "                    &id_from_cmd,\n                    ARRAY_START as usize,\n                    needs_subword_commands_code,", "                    &id_from_cmd,\n                    0,\n                    needs_subword_commands_code,")], {"C04": "ARGBASE:fish"}),
    V("c04-bash-registers-other-function", [("src/bash.rs", "complete -o nospace -F _{command} {command}", "complete -o nospace -F _{command}_main {command}")], {"C04": "NAMES:bash"}),
    V("c04-grouping-by-hash-alone", [("src/zsh.rs", "                left.isomorphic_to(right)\n", "                let _ = (left, right);\n                true\n")], {"C04": "ISOCOV"}),
    V("c04-rename-closure-args-benign", [("src/bash.rs", ".map(|(from, to)| format!(\"[{from}]={to}\"))", ".map(|(src, dst)| format!(\"[{src}]={dst}\"))")], {"C04": None}),
    V("c04-hash-coarser-benign", [("src/tables.rs", "            command,\n            compadd,\n        } = completion_transitions;", "            command,\n            compadd: _,\n        } = completion_transitions;"), ("src/tables.rs", """        if let Some(compadd) = compadd {
            for level in compadd {
                for (from, cmd_ids) in level {
                    hasher.write_u32(*from);
                    for id in cmd_ids {
                        hasher.write_usize(*id);
                    }
                }
            }
        }

""", "")], {"C04": None}),
    V("c04-iso-ignores-compadd", [("src/tables.rs", "            compadd: left_compadd,\n        } = left_completion_transitions;", "            compadd: _,\n        } = left_completion_transitions;"), ("src/tables.rs", "            compadd: right_compadd,\n        } = right_completion_transitions;", "            compadd: _,\n        } = right_completion_transitions;"), ("src/tables.rs", "        if left_compadd != right_compadd {\n            return false;\n        }\n\n        true", "        true")], {"C04": "ISOCOV:tables::LookupTables::isomorphic_to:CompletionTransitions.compadd"}),
    # ---------------- C06
    V("c06-new-unwrap", [("src/check.rs", "            let Some(expn) = nonterms.get(nonterm) else {\n                return Ok(());\n            };", "            let expn = nonterms.get(nonterm).unwrap();")], {"C06": "PANIC:check::do_check_subword_spaces|unwrap"}),
    V("c06-exit-2", [("src/main.rs", "    }\n    exit(1);\n}", "    }\n    exit(2);\n}")], {"C06": "EXIT:main::handle_error:status", "C08": "HANDLER:main::handle_error:exit-1"}),
    V("c06-file-created-early", [("src/main.rs", "    let mut subword_regexes = RegexInternPool::default();\n", "    let script_file = get_file_or_stdout(path)?;\n    let mut subword_regexes = RegexInternPool::default();\n"), ("src/main.rs", "    let script_file = get_file_or_stdout(path)?;\n    let mut writer", "    let mut writer")], {"C06": "ORD:main::aot"}),
    V("c06-revert-subword-diag-fix", [("src/dfa.rs", 'Inp::Subword { .. } => write!(w, r#"<subword>"#)?,', "Inp::Subword { .. } => unreachable!(),")], {"C06": "PANIC:dfa::diagnostic_display_input|panic"}),
    # additions: the class rule ARITH must stay silent on a new u32/usize addition (the false alarm of round 1: the table counted
    # `+ array_start` sites and a fix: commit added one) and still report the additions its argument does not cover
    V("c06-new-wide-add-benign", [("src/dfa.rs", "    writeln!(output, \"{indentation}node [shape=circle];\")?;\n    for state in regular_states {\n", "    writeln!(output, \"{indentation}node [shape=circle];\")?;\n    for state in regular_states {\n        let _shown = state + array_start;\n")], {"C06": None}),
    V("c06-narrow-add", [("src/dfa.rs", "    writeln!(output, \"{indentation}node [shape=circle];\")?;\n    for state in regular_states {\n", "    writeln!(output, \"{indentation}node [shape=circle];\")?;\n    for state in regular_states {\n        let _lvl = (state as u8) + 250u8;\n")], {"C06": "PANIC:dfa::do_to_dot|assert:overflow:Add"}),
    V("c06-big-constant-add", [("src/dfa.rs", "    writeln!(output, \"{indentation}node [shape=circle];\")?;\n    for state in regular_states {\n", "    writeln!(output, \"{indentation}node [shape=circle];\")?;\n    for state in regular_states {\n        let _far = state + 4_000_000_000u32;\n")], {"C06": "PANIC:dfa::do_to_dot|assert:overflow:Add"}),
    V("c06-sub-through-ref", [("src/dfa.rs", "                        from + array_start,\n                        to + array_start,\n                        label", "                        from + array_start,\n                        to - array_start,\n                        label")], {"C06": "PANIC:dfa::do_to_dot|arith-call"}),
    V("c06-wrapping-source", [("src/dfa.rs", "    writeln!(output, \"{indentation}node [shape=circle];\")?;\n    for state in regular_states {\n", "    writeln!(output, \"{indentation}node [shape=circle];\")?;\n    for state in regular_states {\n        let _prev = state.wrapping_sub(1) + array_start;\n")], {"C06": "ARITH:premise:CALL"}),
    # ---------------- every recorded repair coming undone must be reported again under its key (known_findings.json `fixed`)
    V("revert-03d1ec3-builtin-first", [("@revert", "03d1ec3")], {"C11": "LOOKUP:check::specialize_nonterminals:plain-definition-overrides-builtin"}),
    V("revert-ae37757-cycle-seeding", [("@revert", "15c7d97"), ("@revert", "ae37757")], {"C08": "CYCSEED:check::get_nonterminals_resolution_order", "C06": "CYCSEED:check::get_nonterminals_resolution_order"}),
    V("revert-15c7d97-cycle-unreachable", [("@revert", "15c7d97")], {"C06": "PANIC:check::get_nonterminals_resolution_order|panic"}),
    V("revert-c57cb3c-subword-diag", [("@revert", "c57cb3c")], {"C06": "PANIC:dfa::diagnostic_display_input|panic"}),
    V("revert-5309124-span-clamp", [("@revert", "5309124")], {"C06": "main::ErrMsg::error"}),
    V("revert-97cc72a-terminal-rewrap", [("@revert", "97cc72a")], {"C13": "SPANSRC:parse::terminal"}),
    V("revert-e02fe70-minimize-identity", [("@revert", "e02fe70")], {"C03": "NOIDRET:dfa::do_minimize:no-identity-return"}),
    V("revert-e3395e0-compadd-iso", [("@revert", "e3395e0")], {"C04": "ISOCOV:tables::LookupTables::isomorphic_to:CompletionTransitions.compadd"}),
    # ---------------- every registered check: edits that change no behaviour
    V("all-line-shift-benign", [("src/dfa.rs", "use ", "// a comment that moves every line down\n\nuse "), ("src/check.rs", "use ", "// a comment that moves every line down\n\n\nuse "), ("src/main.rs", "use ", "// moved\nuse "),
                                ("src/parse.rs", "use ", "// moved\n// twice\nuse "), ("src/regex.rs", "use ", "// moved\nuse "), ("src/tables.rs", "use ", "// moved\nuse "), ("src/bash.rs", "use ", "// moved\nuse ")],
      {p: None for p in ("C02", "C03", "C04", "C06", "C08", "C09", "C10", "C11", "C13", "C14", "C15")}),
    V("c03-rename-local-benign", [("src/dfa.rs", "let nonaccepting_states =", "let rejecting_states ="), ("src/dfa.rs", "dfa.accepting_states.clone(), nonaccepting_states]", "dfa.accepting_states.clone(), rejecting_states]")], {"C03": None, "C06": None}),
    # ---------------- C07
    V("c07-fish-descr-unencoded", [("src/fish.rs", """            r#"    set {scope_patch}descrs[{id}] {}"#,
            make_string_constant(descr)""", """            r#"    set {scope_patch}descrs[{id}] "{}""#,
            descr""")], {"C07": "SINK:fish::write_literals"}),
    V("c07-bash-literals-handquoted", [("src/bash.rs", ".map(|lit| make_string_constant(lit))", ".map(|lit| format!(\"\\\"{}\\\"\", lit))")], {"C07": "SINK:bash::write_literals"}),
    V("c07-pwsh-descr-via-helper-param", [("src/pwsh.rs", r"""format!("        {} = {};", id, make_string_constant(desc))""", r"""format!("        {} = \"{}\";", id, desc.as_str())""")], {"C07": "SINK:pwsh::write_literals"}),
    V("c07-zsh-encoder-forgets-dollar", [("src/zsh.rs", r"""            .replace('`', "\\`")
            .replace('$', "\\$")
    )
}
""", r"""            .replace('`', "\\`")
    )
}
""")], {"C07": "ENC:zsh::make_string_constant"}),
    V("c07-bash-encoder-backslash-last", [("src/bash.rs", r"""        s.replace('\\', "\\\\")
            .replace('\"', "\\\"")
            .replace('`', "\\`")
            .replace('$', "\\$")""", r"""        s.replace('\"', "\\\"")
            .replace('`', "\\`")
            .replace('$', "\\$")
            .replace('\\', "\\\\")""")], {"C07": "ENC:bash::make_string_constant"}),
    V("c07-bash-encoder-reordered-benign", [("src/bash.rs", r"""            .replace('`', "\\`")
            .replace('$', "\\$")""", r"""            .replace('$', "\\$")
            .replace('`', "\\`")""")], {"C07": None}),
    V("c07-bash-word-unquoted-in-walk", [("src/bash.rs", """if [[ ${{literals[$literal_id]}} = "$word" ]]; then""", """if [[ ${{literals[$literal_id]}} = $word ]]; then""")], {"C07": "SK-QUOTE:pattern"}),
    V("c07-bash-candidate-unquoted-split", [("src/bash.rs", """subword_candidates+=("$matched_prefix$literal")""", """subword_candidates+=($matched_prefix$literal)""")], {"C07": "SK-QUOTE:split"}),
    V("c07-bash-eval-of-text", [("src/bash.rs", """            local literal="${{literals[$literal_id]}}"
            candidates+=("$literal ")""", """            eval "local literal=${{literals[$literal_id]}}"
            candidates+=("$literal ")""")], {"C07": "SK-QUOTE:eval"}),
    V("c07-fish-literals-inside-quotes", [("src/fish.rs", """r#"    set {scope_patch}literals {literals}"#""", """r#"    set {scope_patch}literals "{literals}""#""")], {"C07": "QCTX:fish::write_literals"}),
    V("c07-bash-rename-shell-var-benign", [("src/bash.rs", "local literal=${{literals[$literal_id]}}\n                if [[ $subword == \"$literal\" && -v", "local lit=${{literals[$literal_id]}}\n                local literal=$lit\n                if [[ $subword == \"$literal\" && -v")], {"C07": None}),
    V("revert-52ad43c-bash-backslash", [("@revert", "52ad43c")], {"C07": "ENC:bash::make_string_constant"}),
    V("revert-0f716bf-bash-literal-quotes", [("src/bash.rs", 'if [[ $subword == "$literal" && -v "state_transitions[$literal_id]" ]]; then', 'if [[ $subword == $literal && -v "state_transitions[$literal_id]" ]]; then')], {"C07": "SK-QUOTE:pattern"}),
    # ---------------- C16
    V("seed-C16-m1-subword-return-hoisted", [("@patch", "seeded/C16-m1/patch.diff")], {"C16": "LABEL:regex::do_to_dot:Subword"}),
    V("seed-C16-m2-compadd-arm-unescaped", [("@patch", "seeded/C16-m2/patch.diff")], {"C16": "SINK:dfa::do_to_dot"}),
    V("seed-C16-m3-outer-accepting-states", [("@patch", "seeded/C16-m3/patch.diff")], {"C16": "NODEID:dfa::do_to_dot"}),
    V("revert-56cbc74-regex-labels-raw", [("@revert", "56cbc74")], {"C16": "SINK:regex::do_to_dot"}),
    V("revert-0b1cb42-dfa-labels-and-base", [("@revert", "0b1cb42")], {"C16": "NODEID:dfa::do_to_dot"}),
    V("c16-wrapper-inside-quotes", [("src/regex.rs", 'r#"{indentation}{node_dot_id}[label={}];"#,\n                make_dot_string_constant', 'r#"{indentation}{node_dot_id}[label="{}"];"#,\n                make_dot_string_constant')], {"C16": "QCTX:regex::do_to_dot"}),
    V("c16-encoder-quote-only", [("src/regex.rs", r"""s.replace('\\', "\\\\").replace('"', "\\\"")""", r"""s.replace('"', "\\\"")""")], {"C16": "ENC:regex::escape_dot_string"}),
    V("c16-wrong-shell-base", [("src/main.rs", "Shell::Fish => fish::ARRAY_START,", "Shell::Fish => bash::ARRAY_START,")], {"C16": "ARMS:main::aot:Fish"}),
    V("c16-unbalanced-cluster", [("src/dfa.rs", '        writeln!(output, "{indentation}}}")?;\n    }\n\n    for (from, tos) in &dfa.transitions {', '    }\n\n    for (from, tos) in &dfa.transitions {')], {"C16": "BAL:dfa::do_to_dot"}),
    V("c16-extra-label-benign", [("src/dfa.rs", 'writeln!(output, "{indentation}\\tcolor=grey91;")?;', 'writeln!(output, "{indentation}\\tcolor=grey92;")?;')], {"C16": None}),
    # ---------------- C12
    V("seed-C12-m1-iterate-state-keys", [("@patch", "seeded/C12-m1/patch.diff")], {"C12": "SK-SUB:S1"}),
    V("seed-C12-m2-described-first-resort", [("@patch", "seeded/C12-m2/patch.diff")], {"C12": "SORTLEN:dfa::DFA::get_top_level_literals_decreasing_length:order"}),
    V("seed-C12-m3-matchfn-length-prefilter", [("@patch", "seeded/C12-m3/patch.diff")], {"C12": "SK-MATCHFN"}),
    V("revert-77bb90d-prefix-exit-in-matches-mode", [("@revert", "77bb90d")], {"C12": "SK-SUB:S2:prefix-exit-not-in-matches-mode"}),
    V("c12-zsh-only-loses-mode-guard", [("src/zsh.rs", """if [[ $mode != matches && $literal == $subword* && -v "state_transitions[$literal_id]" ]]; then""", """if [[ $literal == $subword* && -v "state_transitions[$literal_id]" ]]; then""")], {"C12": "SIBLINGS:zsh:prefix-exit-not-in-matches-mode"}),
    V("c12-no-reverse", [("src/dfa.rs", "        result.reverse();\n        result\n", "        result\n")], {"C12": "SORTLEN"}),
    V("c12-descending-comparator-benign", [("src/dfa.rs", """            (left.len(), left).cmp(&(right.len(), right))
        });
        result.reverse();""", """            (right.len(), right).cmp(&(left.len(), left))
        });""")], {"C12": None}),
    V("c12-ids-reversed", [("src/dfa.rs", """        self.get_top_level_literals_decreasing_length()
            .into_iter()
            .enumerate()""", """        self.get_top_level_literals_decreasing_length()
            .into_iter()
            .rev()
            .enumerate()""")], {"C12": "SORTLEN:dfa::DFA::get_all_literals"}),
    V("c12-consume-before-equal-benign", [("src/bash.rs", "char_index=$((char_index + ${{#literal}}))\n                    continue 2\n                fi\n                if [[ $mode != matches", "char_index=$(( char_index + ${{#literal}} ))\n                    continue 2\n                fi\n                if [[ $mode != matches")], {"C12": None}),
    # ---------------- C01 / C17
    V("seed-C01-m1-wordbreak-first-occurrence", [("@patch", "seeded/C01-m1/patch.diff")], {"C01": "SK-FB:F5:suffix-after-last-wordbreak"}),
    V("seed-C01-m3-wrong-star-flag", [("@patch", "seeded/C01-m3/patch.diff")], {"C01": "FLAGS:bash"}),
    V("seed-C17-m1-stale-candidates", [("@patch", "seeded/C17-m1/patch.diff")], {"C17": "SK-FRESH", "C01": "SK-FRESH"}),
    V("seed-C17-m2-per-subword-command-ids", [("@patch", "seeded/C17-m2/patch.diff")], {"C17": "FLAGS:bash:one-command-id-set"}),
    V("seed-C17-m3-optional-stale-child", [("@patch", "seeded/C17-m3/patch.diff")], {"C17": "RP:check::specialize_nonterminals:Optional.child"}),
    V("revert-cbd0a5d-read-splits-at-space", [("@revert", "cbd0a5d")], {"C17": "SK-CMD:V4"}),
    V("c01-star-before-literals", [("src/bash.rs", """    if needs_top_level_star_code {
        write!(
            buffer,
            r#"
        if [[ -v "star_transitions[$state]" ]]; then
            state=${{star_transitions[$state]}}
            word_index=$((word_index + 1))
            continue
        fi
"#
        )?;
    }

    write!(
        buffer,
        r#"
        return 1
    done
""", """    write!(
        buffer,
        r#"
        return 1
    done
"""), ("src/bash.rs", """        starting_state = dfa.starting_state
    )?;
""", """        starting_state = dfa.starting_state
    )?;

    if needs_top_level_star_code {
        write!(
            buffer,
            r#"
        if [[ -v "star_transitions[$state]" ]]; then
            state=${{star_transitions[$state]}}
            word_index=$((word_index + 1))
            continue
        fi
"#
        )?;
    }
""")], {"C01": "SK-WALK:W2:priority"}),
    V("c01-fallback-loop-strict-bound", [("src/bash.rs", "for (( fallback_level=0; fallback_level <= max_fallback_level; fallback_level++ )) {{", "for (( fallback_level=0; fallback_level < max_fallback_level; fallback_level++ )) {{")], {"C01": "SK-FB:F1"}),
    V("c01-no-break-after-reply", [("src/bash.rs", """            COMPREPLY=("${{matches[@]#$superfluous_prefix}}")
            break
""", """            COMPREPLY=("${{matches[@]#$superfluous_prefix}}")
""")], {"C01": "SK-FB:F4"}),
    V("c01-unminimized-automaton", [("src/main.rs", "    let dfa = dfa.minimize();\n\n    if let Some(dot_file_path)", "    let dfa = { let _ = dfa.clone().minimize(); dfa };\n\n    if let Some(dot_file_path)")], {"C01": "PIPE:main::aot:bash:automaton"}),
    V("c01-wrong-module-arm", [("src/main.rs", "complgen::fish::write_completion_script(&mut writer, &validated.command, &dfa)?", "complgen::bash::write_completion_script(&mut writer, &validated.command, &dfa)?")], {"C01": "ARMS:main::aot:Fish"}),
    V("c01-walk-word-index-twice", [("src/bash.rs", """                        state=${{state_transitions[$literal_id]}}
                        word_index=$((word_index + 1))
                        continue 2""", """                        state=${{state_transitions[$literal_id]}}
                        word_index=$((word_index + 1))
                        word_index=$((word_index + 1))
                        continue 2""")], {"C01": "SK-WALK:W3"}),
    V("c01-rename-loop-var-benign", [("src/bash.rs", 'for item in "${{filtered_candidates[@]}}"; do\n                subword_matches+=("$matched_prefix$item")', 'for it in "${{filtered_candidates[@]}}"; do\n                subword_matches+=("$matched_prefix$it")')], {"C01": None, "C17": None, "C07": None, "C12": None}),
    V("c17-args-swapped", [("src/bash.rs", '_{command}_cmd_$command_id "$completed_prefix" "$matched_prefix"', '_{command}_cmd_$command_id "$matched_prefix" "$completed_prefix"')], {"C17": "SK-CMD:V3:within-word complete"}),
    V("c17-filter-with-other-prefix", [("src/bash.rs", '{MATCH_FN_NAME} "$completed_prefix" subword_candidates filtered_candidates', '{MATCH_FN_NAME} "$matched_prefix" subword_candidates filtered_candidates')], {"C17": "SK-CMD:V5"}),
    V("c17-command-text-untrimmed-benign", [("src/bash.rs", "            // Edge case: bash syntax errors on empty function bodies", "            // Edge case: bash reports a syntax error on an empty function body")], {"C17": None}),
    # ---------------- seeds against the earlier checks (each written by a sub-agent that saw only the property text)
    V("seed-C02-m1-preorder-expansion", [("@patch", "seeded/C02-m1/patch.diff")], {"C02": "TOPO:check::traverse_nonterminal_dependencies_dfs", "C14": "TOPO"}),
    V("seed-C02-m2-fallback-stale-children", [("@patch", "seeded/C02-m2/patch.diff")], {"C02": "RP:check::specialize_nonterminals:Fallback.children", "C11": "RP:check::specialize_nonterminals:Fallback.children"}),
    V("seed-C04-m3-fish-descr-id-by-position", [("@patch", "seeded/C04-m3/patch.diff")], {"C04": "DESCRLINK:fish::write_literals"}),
    V("seed-C08-m3-shell-filter-before-noncommand-check", [("@patch", "seeded/C08-m3/patch.diff")], {"C08": "DOM:parse::Grammar::get_specializations"}),
    V("seed-C09-m2-pool-appends", [("@patch", "seeded/C09-m2/patch.diff")], {"C09": "INTERN-DEDUP:dfa::DFAInternPool::intern"}),
    V("seed-C09-m3-refs-skip-fallback", [("@patch", "seeded/C09-m3/patch.diff")], {"C09": "TC:check::do_get_nonterm_refs:Fallback.children", "C14": "TC:check::do_get_nonterm_refs:Fallback.children"}),
    V("seed-C14-m1-raw-multispace-at-defsign", [("@patch", "seeded/C14-m1/patch.diff")], {"C14": "BLANKS:parse::nonterm_def_statement"}),
    V("seed-C15-m3-builtin-filter-all-defs", [("@patch", "seeded/C15-m3/patch.diff")], {"C15": "LOOKUP:check::specialize_nonterminals:plain-definition-overrides-builtin"}),
    V("seed-C06-m2-flatten-skips-fallback", [("@patch", "seeded/C06-m2/patch.diff")], {"C06": "TC:parse::flatten_expr:Fallback.children"}),
    V("seed-C06-m3-cycle-check-early-return", [("@patch", "seeded/C06-m3/patch.diff")], {"C06": "SKIPS:check::get_nonterminals_resolution_order:return-ok", "C08": "SKIPS:check::get_nonterminals_resolution_order:return-ok"}),
    V("seed-C08-m1-visited-filter", [("@patch", "seeded/C08-m1/patch.diff")], {"C08": "SKIPS:regex::Regex::do_check_ambiguous_inputs_tail_only_subword:skip"}),
    V("seed-C09-m1-undescribed-exempt", [("@patch", "seeded/C09-m1/patch.diff")], {"C09": "SKIPS:dfa::DFA::do_check_ambiguity_best_effort:skip", "C08": "SKIPS:dfa::DFA::do_check_ambiguity_best_effort:skip"}),
    V("seed-C10-m3-static-oncelock", [("@patch", "seeded/C10-m3/patch.diff")], {"C10": "GLOBALSTATE:"}),
    V("seed-C13-m3-tail-takes-first", [("@patch", "seeded/C13-m3/patch.diff")], {"C13": "ENDS:check::expr_get_tail:Sequence"}),
    V("skips-rename-locals-benign", [("src/check.rs", "let mut visited: UstrSet = Default::default();\n    let mut result: Vec<Ustr> = Default::default();", "let mut seen_vertices: UstrSet = Default::default();\n    let mut result: Vec<Ustr> = Default::default();"), ("src/check.rs", "&mut visited,\n            &mut result,\n        )?;\n        path.clear();\n        result.push(vertex);", "&mut seen_vertices,\n            &mut result,\n        )?;\n        path.clear();\n        result.push(vertex);"), ("src/check.rs", "debug_assert!(!visited.contains(&vertex));", "debug_assert!(!seen_vertices.contains(&vertex));"), ("src/check.rs", "        if visited.contains(vertex) {\n            continue;\n        }\n        path.push((\n            *vertex,", "        if seen_vertices.contains(vertex) {\n            continue;\n        }\n        path.push((\n            *vertex,"), ("src/check.rs", "&mut visited,\n            &mut result,\n        )?;\n        path.clear();\n        result.push(*vertex);", "&mut seen_vertices,\n            &mut result,\n        )?;\n        path.clear();\n        result.push(*vertex);")], {"C08": None, "C06": None}),
    V("seed-C02-m3-level-written-in-place", [("@patch", "seeded/C02-m3/patch.diff")], {"C02": "ARENA-IMMUT:check::do_propagate_fallback_levels"}),
    V("c03-only-larger-half-requeued", [("src/dfa.rs", "} else if num_states_to_remove <= num_remaining_states {", "} else if num_states_to_remove > num_remaining_states + 1 {")], {"C03": "SKIPS:dfa::do_minimize:guard"}),
    V("c03-trim-keeps-orphans", [("src/dfa.rs", "            if transition.from == starting_state {\n                return true;\n            }\n            if !states_with_input_transition.contains(transition.from)\n                || !states_with_input_transition.contains(transition.to)", "            if transition.from == starting_state {\n                return true;\n            }\n            if !states_with_input_transition.contains(transition.from)\n                && !states_with_input_transition.contains(transition.to)")], {"C03": "SKIPS:dfa::keep_only_states_with_input_transitions"}),
    V("c02-followpos-stops-early", [("src/regex.rs", "                    if !right.nullable(arena) {", "                    if right.nullable(arena) {")], {"C02": "SKIPS:regex::do_followpos"}),
    # ---------------- behaviour-preserving edits against the round-2 rules (must stay silent)
    V("benign-conflict-checks-swapped", [("src/dfa.rs", """            if left_literal != right_literal {
                continue;
            }

            if left_description == right_description {
                continue;
            }
""", """            if left_description == right_description {
                continue;
            }

            if left_literal != right_literal {
                continue;
            }
""")], {"C08": None, "C09": None}),
    V("benign-encoded-descr-via-local", [("src/zsh.rs", """        writeln!(
            buffer,
            r#"    {prefix}descriptions[{id}]={}"#,
            make_string_constant(descr)
        )?;""", """        let quoted = make_string_constant(descr);
        writeln!(buffer, r#"    {prefix}descriptions[{id}]={quoted}"#)?;""")], {"C07": None, "C04": None}),
    V("benign-rename-descr-set", [("src/fish.rs", "let descrs: IndexSet<Ustr>", "let description_set: IndexSet<Ustr>"), ("src/fish.rs", "for descr in &descrs {", "for descr in &description_set {"), ("src/fish.rs", "let id = descrs.get_index_of(descr).unwrap();", "let id = description_set.get_index_of(descr).unwrap();"), ("src/fish.rs", ".filter_map(|(id, _, description)| descrs.get_index_of(description).map(|d| (*id, d)))", ".filter_map(|(id, _, description)| description_set.get_index_of(description).map(|d| (*id, d)))")], {"C04": None, "C07": None}),
    V("benign-sort-by-key-reverse", [("src/dfa.rs", """        result.sort_unstable_by(|(left, _), (right, _)| {
            (left.len(), left).cmp(&(right.len(), right))
        });
        result.reverse();""", """        result.sort_by_key(|(literal, _)| std::cmp::Reverse(literal.len()));""")], {"C12": None}),
    V("benign-extra-skipper-helper", [("src/parse.rs", """fn blanks(input: Span) -> IResult<Span, ()> {
    let (input, _) = alt((multispace1, comment, form_feed)).parse(input)?;
    Ok((input, ()))
}""", """fn plain_space(input: Span) -> IResult<Span, Span> {
    multispace1(input)
}

fn blanks(input: Span) -> IResult<Span, ()> {
    let (input, _) = alt((plain_space, comment, form_feed)).parse(input)?;
    Ok((input, ()))
}""")], {"C14": None, "C13": None}),
    V("benign-dot-label-after-edge", [("src/regex.rs", """        RegexNode::Epsilon => {
            writeln!(output, r#"{indentation}{node_dot_id}[label="Epsilon"];"#)?;
            if let Some(parent_dot_id) = parent_dot_id {
                writeln!(output, r#"{indentation}{parent_dot_id} -> {node_dot_id};"#,)?;
            }
        }""", """        RegexNode::Epsilon => {
            if let Some(parent_dot_id) = parent_dot_id {
                writeln!(output, r#"{indentation}{parent_dot_id} -> {node_dot_id};"#,)?;
            }
            writeln!(output, r#"{indentation}{node_dot_id}[label="Epsilon"];"#)?;
        }""")], {"C16": None}),
    V("benign-minimize-rename-locals", [("src/dfa.rs", "let mut worklist = partitions.clone();", "let mut pending = partitions.clone();"), ("src/dfa.rs", "while let Some(group_id) = worklist.iter().next() {\n        let group_id = *group_id;\n        worklist.remove(&group_id);", "while let Some(group_id) = pending.iter().next() {\n        let group_id = *group_id;\n        pending.remove(&group_id);"), ("src/dfa.rs", """                if worklist.contains(&intern_id) {
                    worklist.remove(&intern_id);
                    worklist.insert(states_to_remove_intern_id);
                    worklist.insert(remaining_states_intern_id);
                } else if num_states_to_remove <= num_remaining_states {
                    worklist.insert(states_to_remove_intern_id);
                } else {
                    worklist.insert(remaining_states_intern_id);
                }""", """                if pending.contains(&intern_id) {
                    pending.remove(&intern_id);
                    pending.insert(states_to_remove_intern_id);
                    pending.insert(remaining_states_intern_id);
                } else if num_states_to_remove <= num_remaining_states {
                    pending.insert(states_to_remove_intern_id);
                } else {
                    pending.insert(remaining_states_intern_id);
                }""")], {"C03": None, "C10": None, "C06": None}),
    V("revert-7638715-eq-coarser-than-hash", [("@revert", "7638715")], {"C10": "HASHEQ:InpInternPool.store:order", "C09": "HASHEQ:DFA.transitions:order"}),
    V("revert-3888228-hopcroft-break", [("@revert", "3888228")], {"C03": "SKIPS:dfa::do_minimize:break^0"}),
    V("seed-C03-m2-trim-and-instead-of-or", [("@patch", "seeded/C03-m2/patch.diff")], {"C03": "SKIPS:dfa::keep_only_states_with_input_transitions"}),
    V("seed-C03-m3-double-minimisation", [("@patch", "seeded/C03-m3/patch.diff")], {"C03": "MINONCE:dfa::DFAInternPool::intern"}),
    V("revert-6a3f768-commands-keep-level-0", [("@revert", "6a3f768")], {"C02": "LEVEL:check::do_propagate_fallback_levels:Command"}),
    V("seed-C13-r2-m2-trace-push-before-early-return", [("@patch", "seeded/C13-r2-m2/patch.diff")], {"C13": "PAIRING:check::do_check_subword_spaces:nonterm_expn_trace"}),
    V("seed-C01-r2-m1-subword-loop-var-clobbers-caller", [("@patch", "seeded/C01-r2-m1/patch.diff")], {"C01": "SK-SCOPE"}),
    V("seed-C01-r2-m3-break-in-literal-scan", [("@patch", "seeded/C01-r2-m3/patch.diff")], {"C01": "SK-WALK:W5:scan-ends-only-by-transition"}),
    V("seed-C01-r2-m2-levels-before-expansion", [("@patch", "seeded/C01-r2-m2/patch.diff")], {"C01": "MPT:check::ValidGrammar::from_grammar"}),
    V("seed-C04-r2-m1-bash-literals-unique", [("@patch", "seeded/C04-r2-m1/patch.diff")], {"C04": "LITLIST:bash::write_literals"}),
    V("seed-C06-r2-m1-subword-level-dropped", [("@patch", "seeded/C06-r2-m1/patch.diff")], {"C06": "FIELDCOVER:dfa::Inp::get_fallback_level", "C02": "FIELDCOVER:dfa::Inp::get_fallback_level"}),
    V("seed-C06-r2-m2-subword-compadd-not-collected", [("@patch", "seeded/C06-r2-m2/patch.diff")], {"C06": "FIELDCOVER:dfa::DFA::get_commands:match#2:Compadd.cmd", "C04": "FIELDCOVER:dfa::DFA::get_commands"}),
    V("seed-C06-r2-m3-mixed-column-units", [("@patch", "seeded/C06-r2-m3/patch.diff")], {"C06": "SPANLINE:parse::HumanSpan:one-column-unit", "C13": "UNITS:parse::HumanSpan:one-column-unit"}),
    V("seed-C08-r2-m1-preorder", [("@patch", "seeded/C08-r2-m1/patch.diff")], {"C08": "TOPO"}),
    V("seed-C09-r2-m1-loop-var-clobber", [("@patch", "seeded/C09-r2-m1/patch.diff")], {"C09": "SK-SCOPE"}),
    V("seed-C09-r2-m2-renumber-before-trim", [("@patch", "seeded/C09-r2-m2/patch.diff")], {"C09": "CHAIN:dfa::do_minimize"}),
    V("seed-C10-r2-m2-no-truncate", [("@patch", "seeded/C10-r2-m2/patch.diff")], {"C10": "OUTFILE", "C06": "OUTFILE"}),
    V("seed-C11-r2-m2-fallback-map-filters-plain-defs", [("@patch", "seeded/C11-r2-m2/patch.diff")], {"C11": "SKIPS:"}),
    V("seed-C11-r2-m3-shadowed-command-set", [("@patch", "seeded/C11-r2-m3/patch.diff")], {"C11": "FLAGS:bash:one-command-id-set"}),
    V("seed-C12-r2-m1-empty-level-tables-skipped", [("@patch", "seeded/C12-r2-m1/patch.diff")], {"C12": "DECLGUARD:bash.", "C04": "DECLGUARD:bash."}),
    V("seed-C17-r2-m1-empty-command-table-not-declared", [("@patch", "seeded/C17-r2-m1/patch.diff")], {"C17": "DECLGUARD:bash.command_transitions"}),
    V("seed-C10-r2-m1-type-annotation-no-c02-alarm", [("@patch", "seeded/C10-r2-m1/patch.diff")], {"C10": "D:ahash:features", "C02": None}),
    V("seed-C12-r2-m3-zsh-exclusive-bound", [("@patch", "seeded/C12-r2-m3/patch.diff")], {"C12": "SIBLINGS:zsh:literal-loop-bounds"}),
    V("seed-C13-r2-m1-pwsh-arm-shell-span", [("@patch", "seeded/C13-r2-m1/patch.diff")], {"C13": "FF:parse::Grammar::get_specializations"}),
    V("seed-C14-r2-m1-empty-comment-is-literal", [("@patch", "seeded/C14-r2-m1/patch.diff")], {"C14": "BLANKS:parse::comment:combinators"}),
    V("seed-C13-r2-m3-unused-span-overwritten", [("@patch", "seeded/C13-r2-m3/patch.diff")], {"C13": "BOOK:"}),
    V("seed-C14-r2-m3-eof-branch-without-skipper", [("@patch", "seeded/C14-r2-m3/patch.diff")], {"C14": "SEQSKIP:parse::call_variant:expr->end_of_statement"}),
    V("benign-skipper-moved-into-end-of-statement", [("src/parse.rs", "    alt((map(char(';'), |_| ()), map(eof, |_| ()))).parse(input)", "    preceded(multiblanks0, alt((map(char(';'), |_| ()), map(eof, |_| ())))).parse(input)"), ("src/parse.rs", "    let (after, expr) = expr(arena, after)?;\n    let (after, _) = multiblanks0(after)?;\n    let (after, _) = end_of_statement(after)?;", "    let (after, expr) = expr(arena, after)?;\n    let (after, _) = end_of_statement(after)?;")], {"C14": None}),
    V("seed-C16-r2-m1-dump-before-minimize", [("@patch", "seeded/C16-r2-m1/patch.diff")], {"C16": "MPT:main::aot:dumps-emitted-automaton"}),
    V("seed-C16-r2-m2-cluster-counter", [("@patch", "seeded/C16-r2-m2/patch.diff")], {"C16": "CLUSTERID:dfa::do_to_dot"}),
    V("seed-C16-r2-m3-encoder-fast-path", [("@patch", "seeded/C16-r2-m3/patch.diff")], {"C16": "ENC:regex::escape_dot_string"}),
    V("seed-C14-r2-m2-duplicate-check-before-filter", [("@patch", "seeded/C14-r2-m2/patch.diff")], {"C14": "GUARD:check::ValidGrammar::from_grammar:DuplicateNonterminalDefinition"}),
    V("seed-C15-r2-m2-underscore-prefix-no-c10-alarm", [("@patch", "seeded/C15-r2-m2/patch.diff")], {"C15": "WARN:main::aot:only-underscore-exempt", "C10": None}),
    V("seed-C17-r2-m3-sort-loses-numeric", [("@patch", "seeded/C17-r2-m3/patch.diff")], {"C17": "SK-CANDORD"}),
    # ---------------- C10
    V("c10-std-hashset-in-dfa", [("src/dfa.rs", "use hashbrown::{HashMap, HashSet};", "use hashbrown::HashMap;\nuse std::collections::HashSet;")], {"C10": "HASHORD:dfa::dfa_from_regex"}),
    V("c10-env-var", [("src/lib.rs", '    let version = env!("COMPLGEN_VERSION");', '    let version = std::env::var("COMPLGEN_VERSION").unwrap_or_default();')], {"C10": "AMBIENT:signature"}),
]
