#!/bin/bash
# try_patch.sh <abs patch.diff> [props...] : apply to a private scratch copy of /repo's sources and run the checks there (nothing registered uses this)
P=$1; shift; PROPS=${@:-C01 C02 C03 C04 C06 C07 C08 C09 C10 C11 C12 C13 C14 C15 C16 C17}
T=${TRY_TAG:-$$}; S=/tmp/vtry_${T}_repo
rm -rf $S /tmp/vtry_${T}_out /tmp/vtry_${T}_work /tmp/vtry_${T}_cache; mkdir -p $S
cp /repo/Cargo.toml /repo/Cargo.lock /repo/build.rs $S/; cp -r /repo/src $S/src
patch -p1 -s -d $S -i "$P" || { echo "patch does not apply"; exit 2; }
export VERIF_REPO=$S VERIF_OUT_DIR=/tmp/vtry_${T}_out VERIF_WORK_DIR=/tmp/vtry_${T}_work VERIF_CACHE_DIR=/tmp/vtry_${T}_cache
cd "$(dirname "$0")/.."
for p in $PROPS; do ./check $p 2>&1 | grep -E "^  rule=|^C[0-9]+:|VIOLATION|rc=" | cut -c1-${TRY_W:-330}; done
rm -rf $S /tmp/vtry_${T}_out /tmp/vtry_${T}_work /tmp/vtry_${T}_cache
